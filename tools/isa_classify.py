#!/usr/bin/env python3
"""isa_classify.py <objdir> <out.tsv>

Instruction-set classifier for C12 (DispatchSim). Disassembles every object of the freshly built
library, assigns each instruction to the nearest preceding *node* symbol (global symbol or FUNC
symbol) of its section, classifies it into CPU feature classes, builds a call/reference graph
from relocations and intra-section branch targets, and writes for every node the union of
feature classes used by the code reachable from it:

    <symbol>\t<comma separated feature classes>\t<object>

Feature classes the dispatchers test: SSE4_1 SSE4_2 AVX AVX2 AVX512F AVX512DQ AVX512CD AVX512BW
AVX512VL VBMI2 GFNI VAES VPCLMULQDQ VNNI BITALG VPOPCNTDQ SHA. Others (SSSE3, AESNI, PCLMUL, BMI,
POPCNT, MOVBE, VBMI, IFMA) are reported for the evidence file but never judged.
"""
import sys, os, re, subprocess, collections
from concurrent.futures import ProcessPoolExecutor

SSSE3 = set("pshufb palignr phaddw phaddd phaddsw phsubw phsubd phsubsw pabsb pabsw pabsd psignb psignw psignd pmaddubsw pmulhrsw".split())
SSE41 = set("""pblendvb pblendw blendvps blendvpd blendps blendpd pextrb pextrd pextrq pinsrb pinsrd pinsrq pmulld pmuldq ptest
 pmovzxbw pmovzxbd pmovzxbq pmovzxwd pmovzxwq pmovzxdq pmovsxbw pmovsxbd pmovsxbq pmovsxwd pmovsxwq pmovsxdq pminsb pminsd pminuw pminud
 pmaxsb pmaxsd pmaxuw pmaxud roundps roundpd roundss roundsd insertps extractps dpps dppd mpsadbw phminposuw packusdw pcmpeqq movntdqa""".split())
SSE42 = set("pcmpgtq pcmpestri pcmpestrm pcmpistri pcmpistrm crc32 crc32b crc32w crc32l crc32q".split())
SHA = set("sha1rnds4 sha1nexte sha1msg1 sha1msg2 sha256rnds2 sha256msg1 sha256msg2".split())
AESNI = set("aesenc aesenclast aesdec aesdeclast aesimc aeskeygenassist".split())
BMI = set("andn bextr blsi blsmsk blsr bzhi mulx pdep pext rorx sarx shlx shrx tzcnt lzcnt".split())
AVX2_ONLY = set("""vpbroadcastb vpbroadcastw vpbroadcastd vpbroadcastq vbroadcasti128 vperm2i128 vpermd vpermq vpermps vpermpd vinserti128 vextracti128
 vpgatherdd vpgatherdq vpgatherqd vpgatherqq vgatherdps vgatherdpd vgatherqps vgatherqpd vpsllvd vpsllvq vpsrlvd vpsrlvq vpsravd vpblendd vpmaskmovd
 vpmaskmovq""".split())
# EVEX-only sub-feature classes by mnemonic
AVX512BW = re.compile(r"^(vmovdqu8|vmovdqu16|vpadd[bw]|vpsub[bw]|vpadds[bw]|vpaddus[bw]|vpsubs[bw]|vpsubus[bw]|vpshufb|vpalignr|vpcmp(u)?[bw]|vpcmpeq[bw]|vpcmpgt[bw]|"
                      r"vpblendm[bw]|vpbroadcast[bw]|vpermw|vpermi2w|vpermt2w|vpsll(v)?w|vpsrl(v)?w|vpsra(v)?w|vpslldq|vpsrldq|vpunpck[lh](bw|wd)|vpack(ss|us)(wb|dw)|"
                      r"vpmov(wb|swb|uswb)|vpmovzxbw|vpmovsxbw|vpmovb2m|vpmovw2m|vpmovm2b|vpmovm2w|vptestm[bw]|vptestnm[bw]|vpmin[su][bw]|vpmax[su][bw]|vpavg[bw]|"
                      r"vpabs[bw]|vpmull(w)|vpmulh(u)?w|vpmulhrsw|vpmaddwd|vpmaddubsw|vpsadbw|vdbpsadbw|vpextr[bw]|vpinsr[bw]|kmovd|kmovq|kaddd|kaddq|kandd|kandq|"
                      r"kandnd|kandnq|knotd|knotq|kord|korq|kortestd|kortestq|kshiftld|kshiftlq|kshiftrd|kshiftrq|ktestd|ktestq|kunpckdq|kunpckwd|kxnord|kxnorq|kxord|kxorq)$")
AVX512DQ = re.compile(r"^(vpmullq|vinsert[fi](32x8|64x2)|vextract[fi](32x8|64x2)|vbroadcast[fi](32x2|32x8|64x2)|vpmovm2[dq]|vpmov[dq]2m|vcvt(t)?p[sd]2(u)?qq|vcvt(u)?qq2p[sd]|"
                      r"vand(n)?p[sd]|vorp[sd]|vxorp[sd]|vrangep[sd]|vrangess|vrangesd|vreducep[sd]|vfpclassp[sd]|vpextr[dq]|vpinsr[dq]|kmovb|kaddb|kaddw|kandb|kandnb|knotb|korb|"
                      r"kortestb|kshiftlb|kshiftrb|ktestb|ktestw|kxnorb|kxorb)$")
AVX512CD = re.compile(r"^(vpconflict[dq]|vplzcnt[dq]|vpbroadcastm(b2q|w2d))$")
VBMI2 = re.compile(r"^(vpcompress[bw]|vpexpand[bw]|vpshld(v)?[wdq]|vpshrd(v)?[wdq])$")
VBMI1 = re.compile(r"^(vpermb|vpermi2b|vpermt2b|vpmultishiftqb)$")
IFMA = re.compile(r"^(vpmadd52[lh]uq)$")
VNNI = re.compile(r"^(vpdpbusd(s)?|vpdpwssd(s)?)$")
BITALG = re.compile(r"^(vpopcnt[bw]|vpshufbitqmb)$")
VPOPCNTDQ = re.compile(r"^(vpopcnt[dq])$")
GFNI = re.compile(r"^(v)?gf2p8(affineqb|affineinvqb|mulb)$")
KOPS = re.compile(r"^k(mov|add|and|andn|not|or|ortest|shiftl|shiftr|test|unpck|xnor|xor)[bwdq]+$")

LEGACY_PREFIXES = {0x66, 0x67, 0xf2, 0xf3, 0x2e, 0x36, 0x3e, 0x26, 0x64, 0x65, 0xf0}

def classify(raw, mnem, ops):
    """returns set of feature classes for one instruction"""
    f = set()
    i = 0
    while i < len(raw) and raw[i] in LEGACY_PREFIXES:
        i += 1
    # REX prefix (legacy encodings only)
    lead = raw[i] if i < len(raw) else 0
    has_zmm = "%zmm" in ops
    has_ymm = "%ymm" in ops
    has_xmm = "%xmm" in ops
    has_k = re.search(r"%k[0-7]", ops) is not None
    hi_reg = re.search(r"%[xyz]mm(1[6-9]|2[0-9]|3[01])", ops) is not None
    m = mnem
    if m in SHA:
        f.add("SHA")
    if GFNI.match(m):
        f.add("GFNI")
    base = m[1:] if m.startswith("v") else m
    if base in AESNI:
        f.add("AESNI")
    if base in ("pclmulqdq", "pclmullqlqdq", "pclmulhqlqdq", "pclmullqhqdq", "pclmulhqhqdq"):
        f.add("PCLMUL")
    if lead == 0x62:  # EVEX
        f.add("AVX512F")
        if not has_zmm and (has_ymm or has_xmm) and not m.startswith("k"):
            # 128/256-bit EVEX needs VL (scalar forms excluded: they end in ss/sd and only use xmm)
            if not re.search(r"(ss|sd)$", m) or has_ymm:
                f.add("AVX512VL")
        if AVX512BW.match(m):
            f.add("AVX512BW")
        if AVX512DQ.match(m):
            f.add("AVX512DQ")
        if AVX512CD.match(m):
            f.add("AVX512CD")
        if VBMI2.match(m):
            f.add("VBMI2")
        if VBMI1.match(m):
            f.add("VBMI")
        if IFMA.match(m):
            f.add("IFMA")
        if VNNI.match(m):
            f.add("VNNI")
        if BITALG.match(m):
            f.add("BITALG")
        if VPOPCNTDQ.match(m):
            f.add("VPOPCNTDQ")
        if base in AESNI:
            f.add("VAES")
        if base.startswith("pclmul"):
            f.add("VPCLMULQDQ")
        return f
    if lead in (0xc4, 0xc5):  # VEX
        if KOPS.match(m) and has_k:
            f.add("AVX512F")
            if AVX512BW.match(m):
                f.add("AVX512BW")
            if AVX512DQ.match(m):
                f.add("AVX512DQ")
            return f
        if m in BMI or not (has_xmm or has_ymm):
            if m in BMI:
                f.add("BMI")
            return f
        f.add("AVX")
        if m in AVX2_ONLY:
            f.add("AVX2")
        elif m in ("vbroadcastss", "vbroadcastsd") and "(" not in ops.split(",")[0]:
            # AVX has only the memory-source form; the register-source form (ModRM.mod = 11b) came with AVX2
            f.add("AVX2")
        elif has_ymm and m.startswith("vp") and m not in ("vptest", "vpermilps", "vpermilpd", "vperm2f128"):
            f.add("AVX2")
        elif has_ymm and m in ("vmovntdqa", "vmpsadbw"):
            f.add("AVX2")
        if has_ymm and base in AESNI:
            f.add("VAES")
        if has_ymm and base.startswith("pclmul"):
            f.add("VPCLMULQDQ")
        return f
    # legacy encodings
    if m in BMI and m not in ("tzcnt", "lzcnt"):
        f.add("BMI")
    if m in ("popcnt",):
        f.add("POPCNT")
    if m in ("movbe",):
        f.add("MOVBE")
    if m in SSSE3:
        f.add("SSSE3")
    if m in SSE41:
        f.add("SSE4_1")
    if m in SSE42:
        f.add("SSE4_2")
    return f

SYM_RE = re.compile(r"^([0-9a-f]{16}) (.)(.)(.)(.)(.)(.)(.) (\S+)\t?([0-9a-f]*)\s*(\S*)\s*(\S.*)?$")
INS_RE = re.compile(r"^\s*([0-9a-f]+):\t((?:[0-9a-f]{2} )+)\s*\t?(.*)$")
CONT_RE = re.compile(r"^\s*([0-9a-f]+):\t((?:[0-9a-f]{2} )+)\s*$")
REL_RE = re.compile(r"^\s*([0-9a-f]+): (R_X86_64_\S+)\s+(\S+?)([-+]0x[0-9a-f]+)?$")
HDR_RE = re.compile(r"^([0-9a-f]{16}) <(.+)>:$")
SEC_RE = re.compile(r"^Disassembly of section (\S+):$")

def process_object(path):
    """returns (objname, nodes: {name: set(features)}, edges: {name: set(target names)}, defined:set)"""
    obj = os.path.basename(path)
    symtxt = subprocess.run(["objdump", "-t", path], capture_output=True, text=True).stdout
    # node symbols per section: address -> name
    nodes_by_sec = collections.defaultdict(dict)
    label_by_sec = collections.defaultdict(dict)
    local_names = set()
    for ln in symtxt.splitlines():
        parts = ln.split()
        if len(parts) < 4 or not re.match(r"^[0-9a-f]{16}$", parts[0]):
            continue
        addr = int(parts[0], 16)
        flags = ln[17:24]
        rest = ln[25:].split()
        if len(rest) < 3:
            continue
        sec, name = rest[0], rest[-1]
        if sec in ("*UND*", "*ABS*", "*COM*"):
            continue
        is_global = flags[0] in ("g", "u", "!") or flags[1] == "w"
        is_func = "F" in flags
        is_section = "d" in flags and name.startswith(".")
        if is_section or name.startswith(".L"):
            continue
        if is_global or is_func:
            # local (static) functions are qualified by their object: names repeat across objects
            qn = name if is_global else "%s:%s" % (obj, name)
            if not is_global:
                local_names.add(name)
            # prefer the first-declared global at an address
            if addr not in nodes_by_sec[sec] or is_global:
                nodes_by_sec[sec][addr] = qn
        label_by_sec[sec].setdefault(addr, name)
    dis = subprocess.run(["objdump", "-d", "-r", "--insn-width=16", path], capture_output=True, text=True).stdout
    feats = collections.defaultdict(set)
    edges = collections.defaultdict(set)
    sec = None
    sorted_nodes = {}
    def node_at(section, addr):
        if section not in sorted_nodes:
            sorted_nodes[section] = sorted(nodes_by_sec[section].items())
        arr = sorted_nodes[section]
        lo, hi = 0, len(arr)
        while lo < hi:
            mid = (lo + hi) // 2
            if arr[mid][0] <= addr:
                lo = mid + 1
            else:
                hi = mid
        if lo == 0:
            return "%s:%s:@start" % (obj, section)
        return arr[lo - 1][1]
    cur_node = None
    for ln in dis.splitlines():
        m = SEC_RE.match(ln)
        if m:
            sec = m.group(1)
            continue
        m = REL_RE.match(ln)
        if m and cur_node is not None:
            tgt = m.group(3)
            if tgt.startswith("."):
                # section-relative relocation: resolve through addend when it is a text section
                add = m.group(4)
                if tgt in nodes_by_sec and add:
                    off = int(add, 16) + (4 if m.group(2) in ("R_X86_64_PC32", "R_X86_64_PLT32") else 0)
                    edges[cur_node].add(node_at(tgt, off))
            else:
                edges[cur_node].add(("%s:%s" % (obj, tgt)) if tgt in local_names else tgt)
            continue
        m = INS_RE.match(ln)
        if not m or sec is None:
            continue
        addr = int(m.group(1), 16)
        raw = bytes(int(b, 16) for b in m.group(2).split())
        text = m.group(3).strip()
        cur_node = node_at(sec, addr)
        feats[cur_node]  # ensure present
        if not text:
            continue
        toks = text.split(None, 1)
        mnem = toks[0]
        ops = toks[1] if len(toks) > 1 else ""
        # skip pure prefixes printed as mnemonics
        while mnem in ("lock", "rep", "repz", "repnz", "notrack", "bnd", "data16", "addr32", "cs", "ds") and ops:
            toks = ops.split(None, 1)
            mnem = toks[0]
            ops = toks[1] if len(toks) > 1 else ""
        if mnem.startswith("("):
            continue
        feats[cur_node] |= classify(raw, mnem, ops)
        # intra-section direct branch/call targets: "<label+off>" with an absolute address operand
        if mnem.startswith("j") or mnem.startswith("call") or mnem.startswith("loop"):
            mm = re.match(r"^([0-9a-f]+) <", ops)
            if mm:
                edges[cur_node].add(node_at(sec, int(mm.group(1), 16)))
    defined = set()
    for s, d in nodes_by_sec.items():
        for a, n in d.items():
            defined.add(n)
    return obj, dict(feats), dict(edges), defined

def main():
    objdir, out = sys.argv[1], sys.argv[2]
    objs = sorted(os.path.join(objdir, f) for f in os.listdir(objdir) if f.endswith(".o"))
    feats, edges, where = {}, {}, {}
    with ProcessPoolExecutor(max_workers=min(16, os.cpu_count() or 4)) as ex:
        for obj, f, e, defined in ex.map(process_object, objs):
            for n, s in f.items():
                feats.setdefault(n, set()).update(s)
                where.setdefault(n, obj)
            for n, s in e.items():
                edges.setdefault(n, set()).update(s)
    # closure
    memo = {}
    def reach(n):
        seen, stack = set(), [n]
        acc = set()
        while stack:
            x = stack.pop()
            if x in seen:
                continue
            seen.add(x)
            acc |= feats.get(x, set())
            for y in edges.get(x, ()):
                if y in feats or y in edges:
                    stack.append(y)
        return acc
    with open(out + ".tmp", "w") as fo:
        for n in sorted(feats):
            if ":" in n:
                continue  # object-local nodes are folded into the globals that reach them
            fo.write("%s\t%s\t%s\n" % (n, ",".join(sorted(reach(n))), where.get(n, "")))
    os.replace(out + ".tmp", out)

if __name__ == "__main__":
    main()
