#!/bin/bash
# tools/own_matrix.sh [id ...]
# every seeded change (or the ones named) against the quick check(s) of its own property, plus the checks
# its meta names as catching it elsewhere. Latest rounds first. Run inside a `vp run` snapshot only
# (seeded_matrix.sh works in scratch worktrees through VERIF_REPO and deletes build directories).
cd "$(dirname "$0")/.."
ids="$*"
[ -z "$ids" ] && ids=$(ls -d seeded/*/ | xargs -n1 basename | sort -r)
mkdir -p /tmp/wt
for id in $ids; do
  d=seeded/$id; [ -f $d/patch.diff ] || continue
  prop=$(python3 -c "import json;print(json.load(open('$d/meta.json'))['property'])" 2>/dev/null || echo "")
  [ -z "$prop" ] && prop=$(echo $id | sed 's/.*-\(C[0-9][0-9]\).*/\1/')
  extra=""
  case $id in agent4-C18) extra="C17";; agent4-C12) extra="C18";; agent4-C20) extra="C01";; agent3-C06) extra="C15";;
              agent5-C13) extra="C17";; agent6-C06) extra="C12";; agent6-C08) extra="C12";; agent6-C18) extra="C12";; esac
  CHECKS="$prop $extra" MATRIX_OUT=/tmp/wt/own_$id.tsv tools/seeded_matrix.sh $id
done
cat /tmp/wt/own_*.tsv > /tmp/wt/own_matrix_all.tsv
