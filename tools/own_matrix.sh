#!/bin/bash
# every seeded change against the quick check(s) of its own property (plus the checks named in its meta as catching it elsewhere)
cd "$(dirname "$0")/.."
for d in seeded/*/; do
  id=$(basename $d); [ -f $d/patch.diff ] || continue
  prop=$(python3 -c "import json;print(json.load(open('$d/meta.json'))['property'])" 2>/dev/null || echo "")
  [ -z "$prop" ] && prop=$(echo $id | sed 's/.*-\(C[0-9][0-9]\).*/\1/')
  extra=""
  case $id in agent4-C18) extra="C17";; agent4-C12) extra="C18";; agent4-C20) extra="C01";; agent3-C06) extra="C15";; esac
  CHECKS="$prop $extra" MATRIX_OUT=/tmp/wt/own_$id.tsv tools/seeded_matrix.sh $id
done
cat /tmp/wt/own_*.tsv > /tmp/wt/own_matrix_all.tsv
