#!/bin/bash
# tools/try_seeded.sh <seeded id> <Cxx> [<Cxx> ...]
# Applies /verif/seeded/<id>/patch.diff to /repo, runs the quick checks named, and always undoes the
# change afterwards (git -C /repo checkout -- .). Evidence and replays go to out/seeded/<id>/ so that the
# committed evidence is not touched. Prints one line per check: CAUGHT / MISSED / BROKEN(exit 2).
set -u
ROOT="$(cd "$(dirname "$0")/.." && pwd)"
id="$1"; shift
patch="$ROOT/seeded/$id/patch.diff"
[ -f "$patch" ] || { echo "no such seeded change: $id"; exit 2; }
if ! git -C /repo diff --quiet; then echo "/repo has uncommitted changes; refusing"; exit 2; fi
undo() { git -C /repo checkout -- . ; }
trap undo EXIT
git -C /repo apply "$patch" || { echo "patch does not apply to /repo"; exit 2; }
out="$ROOT/out/seeded/$id"; mkdir -p "$out/evidence"
for c in "$@"; do
  VERIF_OUT="$out" VERIF_EVIDENCE_DIR="$out/evidence" "$ROOT/run" "$c" "${TIER:-quick}" > "$out/$c.log" 2>&1; rc=$?
  case $rc in
    1) echo "$id $c CAUGHT: $(grep -m1 '^violation' "$out/$c.log" | cut -c1-220)";;
    0) echo "$id $c MISSED";;
    *) echo "$id $c BROKEN (exit $rc): $(tail -2 "$out/$c.log" | tr '\n' ' ' | cut -c1-200)";;
  esac
done
