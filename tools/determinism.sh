#!/bin/bash
# tools/determinism.sh [N] [Cxx ...]
# Proves replay determinism: the first N runs of each check are executed twice in separate
# processes - once split over 16 worker processes, once over 3 - and the per-run
# (event hash, observable hash, #violations) lines are diffed. Exit 0 iff identical.
set -u
ROOT="$(cd "$(dirname "$0")/.." && pwd)"
N="${1:-3000}"; shift || true
PROPS="${*:-C01 C05 C06 C07 C08 C09 C10 C11 C12 C13 C14 C17 C18 C19 C20}"
FIPS=" C13 C17 "
tmp="$ROOT/out/tmp/determinism.$$"; mkdir -p "$tmp"
rc=0
for p in $PROPS; do
  case "$FIPS" in *" $p "*) bin="$ROOT/build/harness-fips/isalsim_fips"; ld="$ROOT/build/harness-fips/.libdir";; *) bin="$ROOT/build/harness-std/isalsim"; ld="$ROOT/build/harness-std/.libdir";; esac
  export ISALSIM_NEED="$(cat "$ld")/isa_need.tsv"
  for W in 16 3; do
    for ((w=0; w<W; w++)); do VERIF_WORKERS=$W VERIF_WID=$w "$bin" determinism "$p" "$N" > "$tmp/$p.$W.$w" & done
    wait
    cat "$tmp/$p.$W."* | sort -n > "$tmp/$p.$W.all"; rm -f "$tmp/$p.$W."[0-9]*
  done
  n=$(wc -l < "$tmp/$p.16.all")
  case " C14 C18 C19 " in *" $p "*)
    # FIPS-build pass of the same property: same proof with the FIPS binary
    binf="$ROOT/build/harness-fips/isalsim_fips"; needf="$(cat "$ROOT/build/harness-fips/.libdir")/isa_need.tsv"
    for W in 16 3; do
      for ((w=0; w<W; w++)); do ISALSIM_NEED="$needf" VERIF_WORKERS=$W VERIF_WID=$w "$binf" determinism "$p" "$N" > "$tmp/$p.f.$W.$w" & done
      wait
      cat "$tmp/$p.f.$W."* | sort -n > "$tmp/$p.f.$W.all"; rm -f "$tmp/$p.f.$W."[0-9]*
    done
    nf=$(wc -l < "$tmp/$p.f.16.all")
    if cmp -s "$tmp/$p.f.16.all" "$tmp/$p.f.3.all" && [ "$nf" = "$N" ]; then echo "$p (FIPS-build pass): $nf runs identical across 16-process and 3-process executions (VERIF_SEED=${VERIF_SEED:-1})"
    else echo "$p (FIPS-build pass): NONDETERMINISM ($nf lines)"; diff "$tmp/$p.f.16.all" "$tmp/$p.f.3.all" | head -5; rc=1; fi ;;
  esac
  if cmp -s "$tmp/$p.16.all" "$tmp/$p.3.all" && [ "$n" = "$N" ]; then echo "$p: $n runs identical across 16-process and 3-process executions (VERIF_SEED=${VERIF_SEED:-1})"
  else echo "$p: NONDETERMINISM ($n lines)"; diff "$tmp/$p.16.all" "$tmp/$p.3.all" | head -5; rc=1; fi
done
rm -rf "$tmp"
exit $rc
