#!/usr/bin/env python3
"""Regenerates /verif/MANIFEST.json from the table below (single source of truth)."""
import json, subprocess, os

ROOT = os.path.dirname(os.path.dirname(os.path.abspath(__file__)))

def hook_commits():
    out = subprocess.run(["git", "-C", "/repo", "log", "--format=%H %s"], capture_output=True, text=True).stdout
    return [l.split()[0] for l in out.splitlines() if " verif hook " in l][::-1]

TECH = "deterministic simulation with fault injection"
CHECKS = {
 "C01": dict(cat="exploration", sec="5 HashMgrSim",
   text="Seeded search over client interleavings, segmentations, flush placement, context reuse and all 28 (algorithm, family) pairs; every COMPLETE hand-back is compared with an independent reference hash of the accepted segments. Sampling of histories, not proof.",
   note="Reference hashes (written from the standards, vector-checked at start-up) are trusted; completed messages bounded (mostly <= 8 KiB, rarely 1 MiB; one run in 12 also keeps a never-finished 2^30..2^32-1 byte segment in flight), <= 330 ops per run. Thorough adds 28 endurance runs (one long-lived manager per pair, 20-36 GiB through the flush path). 20 runs per quick batch fill every lane of the wide managers with a mask of >= 2^31-byte giants and short jobs.",
   tech=TECH + ": HashMgrSim, reference-model oracle per completed job"),
 "C06": dict(cat="exploration", sec="5 HashMgrSim",
   text="Conservation/drain invariants evaluated after every submit/flush of every simulated history (exactly-once hand-back, never PROCESSING, capacity <= lanes, flush NULL iff empty, drain liveness bounded in calls, user_data and buffers untouched).",
   note="Lane capacity per family is read from the family's manager-init code; in-flight bookkeeping is the model's (submit returned something other than the submitted context). 28 runs per quick batch (one per pair) flush a single 2^30-byte ENTIRE segment to the end.",
   tech=TECH + ": HashMgrSim, manager model invariants after every step"),
 "C11": dict(cat="exploration", sec="5 HashMgrSim",
   text="Misuse faults (bad flags / already processing / already completed) injected at arbitrary manager states; byte images of manager and all other contexts compared before/after, API-defined state of the rejected context compared, and every later valid call through isal_* must return 0 and every job must still verify.",
   note="The error field of the rejected context is the reported result and is exempt from the image comparison.",
   tech=TECH + ": HashMgrSim with misuse-fault ops"),
 "C05": dict(cat="exploration", sec="5 StreamSim",
   text="Seeded search over stream lengths, fragmentations (carry x fragment class incl. empty, exact fill, multi-block crossing), restarts, interleaved clients and all five families of mh_sha1 and mh_sha256; finalize digest compared with the multi-hash definition computed by an independent model; one >= 2^31-byte update per quick run.",
   note="The model follows the property text; the byte order of the final hash's input (native little-endian words in [word][segment] layout) is taken from the pinned implementation. Streams mostly <= 64 KiB.",
   tech=TECH + ": StreamSim (fragmenting transport), reference-model oracle at finalize"),
 "C07": dict(cat="exploration", sec="5 StreamSim",
   text="AES-GCM init/update*/finalize under arbitrary update splits (every carried-partial x fragment-residue cell reachable), both key sizes, four families, enc/dec, in/out of place, _nt under its documented rule, contexts sharing key data, mid-message restarts; output bytes and tag compared with the one-shot call of the same family; 8 runs per quick batch carry a message longer than 2^32 bytes (one-shot, one update call, pieces below 2^32 must agree).",
   note="The one-shot entry point of the same family is the oracle (its own correctness is C02, not claimed). Key data produced by the same family's precompute or, among sse / avx_gen2 / avx_gen4, by another family's. One run in 8 is a gcmjump run: the stream position of a context is advanced by J blocks (counter and in_length, J up to 2^32 - 2^16) and two families continue from the same context bytes; outputs and tags must agree (the correct continuation is unique).",
   tech=TECH + ": StreamSim, one-shot call as reference model"),
 "C09": dict(cat="exploration", sec="5 StreamSim",
   text="Rolling-hash clients with window 1..48, frequent and rare masks, mask_gen output, three scan implementations; every run call's (match, offset) and state hash compared with the non-incremental definition over a golden copy of the table; twin clients on one stream under different splits; one >= 2^31-byte run per implementation.",
   note="Golden table frozen in /verif at the pinned commit defines the hash; streams <= 64 KiB apart from the aliased 2 GiB window. One client in 8 meets a 48-byte window whose full 64-bit hash is 0 (solved from the table) as reset window or ending exactly at a call boundary.",
   tech=TECH + ": StreamSim, executable reference model per call"),
 "C10": dict(cat="exploration", sec="5 StreamSim",
   text="As C05 for mh_sha1_murmur3_x64_128 with a 64-bit seed per stream: SHA part compared with the multi-hash model, 128-bit part with a MurmurHash3_x64_128 reference (h1=h2=seed), for every fragmentation and family sampled.",
   note="MurmurHash3 reference checked against published vectors at start-up. Fault 'object migration': the plain-data context (also multi-hash, rolling state, GCM context) is copied mid-stream to an address with another phase within a cache line and the old copy scribbled over.",
   tech=TECH + ": StreamSim, two reference models at finalize"),
 "C08": dict(cat="exploration", sec="5 cross-cutting monitors",
   text="Memory-map monitor over a mixed batch of all workloads (hash managers on 28 pairs, mh/murmur/rolling/GCM streaming, one-shot AES client on every family): every buffer end-flush/start-flush/mid-slot against PROT_NONE pages, canaries around every range, checksums of inputs, key data and bystander objects; SIGSEGV/SIGBUS mapped to (buffer, offset, read/write). Half of the runs place a share of their buffers across, on or up to a 4 GiB-aligned address; 12 runs per quick batch are huge stream cases (updates / run calls / GCM calls of 2^31 .. 2^32+ bytes through aliased windows).",
   note="Guard pages detect accesses crossing into the neighbouring page from the flush side; the other side is covered by canaries (writes) and by the opposite placement in other runs (reads). Documented alignment rules honoured.",
   tech=TECH + ": simulated memory map (guard pages, canaries, checksums) as monitor in all simulations"),
 "C14": dict(cat="exploration", sec="5 cross-cutting monitors",
   text="After every AES entry point (key expansion, GCM precompute/init/update/finalize/one-shot, CBC, XTS; all families, raw and isal_ API) reached from streaming GCM clients and the one-shot client, all 128 16-byte lanes of zmm0-31 and the dirtied part of a 64 KiB pre-poisoned dead stack are searched for the call's secret set.",
   note="Secret set: raw keys, all round keys, GHASH key and stored powers, E(key2,tweak). Dedicated call stack re-poisoned per call, so residue is attributable to the call. Low-entropy blocks are not used as needles. A second pass runs the monitor over the FIPS_MODE archive (gated isal_ API through the one-shot and streaming clients, and the FIPS gate enumeration incl. the refusing paths).",
   tech=TECH + ": register-file/dead-stack capture by the call trampoline, secret scan as monitor"),
 "C15": dict(cat="exploration", sec="5 HashMgrSim long-stream workload",
   text="Long clients stream a periodic pattern through a 4 GiB aliased window under seeded segmentations (segments up to 2^32-1 bytes, small unaligned bursts around 2^29, 2^32, 2^32+2^29) interleaved with short clients on every (algorithm, family) pair; digest compared with a streaming reference, total_length with the sum of segments.",
   note="Quick: all 28 pairs cross 2^29 and 2^32 with real data (reference states cached on disk by setup); thorough: all pairs also cross 2^32+2^29. Totals near 2^33..2^60 are reached by a clock jump of ctx->total_length (a whole number of blocks added to the library's counter and to the model's length while the context is idle; 140 runs per quick batch); a run in which the library's reported total does not follow the jump is discarded, not judged.",
   tech=TECH + ": HashMgrSim long-stream workload, reference-model oracle"),
 "C18": dict(cat="exploration", sec="5 SharedStateSim",
   text="Three deterministic single-thread mechanisms: (a) the archive's entire writable static storage (one page-aligned linked section) is write-protected before or after binding while hash-manager, streaming and one-shot workloads and real first calls run; only stores into <entry>_dispatched slots / self_test_status are admitted and logged by writer, any other store is reported with its symbol; (b) 2-6 coroutine tasks race first calls of the same or different dispatched entry points at the simulated cpuid/xgetbv yield points: results, final bindings and every intermediate slot value are checked, on host, SSE, AVX, AVX2 and two Avoton profiles, and no binding other than the raced ones may change; (c) two tasks with separate environments run workloads interleaved at call granularity and must reproduce their solo observable histories.",
   note="True parallel preemption inside a kernel is not simulated; the argument is that code which never writes static storage after binding has only caller-owned objects, its own stack and constants to interfere through. A second pass runs the same modes over the FIPS_MODE archive (self-tests executing under frozen statics).",
   tech=TECH + ": SharedStateSim (frozen statics fault injection, coroutine first-call races, interleaved replay vs solo)"),

 "C19": dict(cat="exploration", sec="5 cross-cutting monitors",
   text="Every library call of the mixed batch (hash managers, streaming objects, one-shot AES, all dispatch resolvers) runs through a trampoline that plants sentinels in rbx, rbp, r12-r15, poisons everything else and compares rsp, the sentinels, DF, MXCSR control bits, x87 CW and 64 canary bytes above the callee's frame afterwards; resolvers additionally must preserve every argument, vector and mask register.",
   note="Exit paths are reached through histories and length classes, not enumerated from source; A second pass runs the monitor over the FIPS_MODE archive (gate enumeration incl. not-yet-run self-tests and a direct call of the status helper).",
   tech=TECH + ": call trampoline with sentinel registers as monitor in all simulations"),
 "C20": dict(cat="exploration", sec="5 cross-cutting monitors",
   text="Paired replay: every plan of the mixed batch is executed twice from identical schedule/transport/fault streams and addresses but different hidden seeds (output prefill, uninitialised object memory, bytes beyond len, caller-saved/vector/mask registers, flags, dead stack); the observable histories (return values, returned contexts, digests, tags, output bytes, offsets, statuses) must be identical.",
   note="Object internals, bytes beyond len and register contents after return are deliberately not compared. 3 runs per quick batch (28 thorough) are single CBC calls of 2^32 + 16k bytes through aliased windows whose output period is prefilled from the hidden stream.",
   tech=TECH + ": paired execution under different hidden-state seeds, history comparison"),

 "C12": dict(cat="exploration", sec="5 DispatchSim",
   text="Every dispatched entry point's resolver is executed under seeded, architecturally consistent simulated CPUID/XCR0 assignments biased to fault profiles; the bound target's instruction classes (classifier over the freshly built objects, closed over calls) must be available on the simulated machine, entries sharing an object must bind one family, XGETBV must not execute without OSXSAVE, the resolver must preserve all registers, and real first calls followed by calls under another CPU must keep the binding without re-querying; the target's symbol must name the entry point's own role, and a resolver call must leave every other entry point's binding unchanged.",
   note="Hand-written objdump classifier and SDM usability rules; feature classes the dispatchers never test are outside the quantifier; AES entry points have SSE4.1 as documented minimum.",
   tech=TECH + ": DispatchSim, simulated CPUID/XGETBV behind hook H1"),

 "C13": dict(cat="fault_enumeration", sec="5 FipsGateSim",
   text="FIPS_MODE=y build. Every (exported isal_* entry point x injected self-test state/fault kind) pair is enumerated (first call of run i is entry (i/6) mod N under fault kind i mod 6); order, arguments, XTS same-key variants and further injections are seeded. Oracle per call: return code per state, outputs byte-identical after a refusal, self-tests run exactly once in the first approved call, verdict recorded as PASSED/FAILED.",
   note="Faults: _aes_self_tests/_sha_self_tests forced to fail (link-time wrap), KAT corruption of a kernel output behind a dispatch pointer (bit flip, or a short write: 12 of 16 tag bytes from the GCM streaming decrypt finalize; persistent or transient), preset states. isal_crypto_get_version* are called but not judged.",
   tech=TECH + ": FipsGateSim, enumeration of entry point x fault kind with seeded sequences"),
 "C17": dict(cat="exploration", sec="5 FipsRaceSim",
   text="FIPS_MODE=y build. 1-8 coroutine tasks race through the real check/claim/spin/publish assembly (yield points from hook H4) under seeded uniform, bursty and PCT-style schedules with injected verdicts; history oracle: self-tests entered exactly once by one task, no success return and no kernel entry before the tests finished and passed, identical verdict for every call, bounded completion after the verdict is published.",
   note="Real self-tests (1 run in 20) run on a seeded hash family; a task that makes no progress for 10 s of CPU time is cut off and reported. Sequentially consistent interleavings at shared-access granularity, with unlocked read-modify-write instructions at the hooked points split into load and store (two bus cycles); x86-TSO store buffering not modelled. Liveness bounded in scheduling steps under a fair fallback scheduler. Stalled-runner fault: a spinning waiter polls 2^8..2^24 times in a row (thorough: once 2^32 + 2^20 times, 96 s) while nobody else runs, and goes on alone if it leaves the loop. fips/self_tests_generic.c (non-x86, not in the x86_64 archive) is simulated as a second implementation with shimmed C11 atomics in 1 run of 4.",
   tech=TECH + ": FipsRaceSim, coroutine scheduler over hooked synchronisation points, history oracle"),
}

NA = {
 "C02": "one-shot AES-GCM output is a pure function of its declared inputs (key, IV, AAD, data, tag length); there is no history, schedule, fault or hidden input for a simulator to control, only inputs to sample against SP 800-38D",
 "C03": "AES-XTS on one data unit is a pure function of (key1, key2, tweak, data, len); no state survives the call and nothing nondeterministic is involved",
 "C04": "key expansion and one-shot CBC are pure functions of (key, IV, data); equality with FIPS-197 / SP 800-38A is a reference-implementation comparison, not a simulation",
 "C16": "argument validation is decided per call from the argument tuple alone (no object state, no ordering); enumerating NULL/out-of-domain combinations against an error-code table is input enumeration, not simulation",
}
NOT_BUILT = "claimed in DESIGN.md but its simulation is not built yet in this round; listed here until the check exists"
ALL = ["C%02d" % i for i in range(1, 21)]

def main():
    checks = []
    for pid in ALL:
        if pid not in CHECKS:
            continue
        c = CHECKS[pid]
        checks.append({
            "property_id": pid,
            "quick_cmd": "./run %s quick" % pid,
            "thorough_cmd": "./run %s thorough" % pid,
            "evidence_file": "/verif/evidence/%s.json" % pid,
            "replay_cmd_template": "./run replay {path}",
            "engine": "isalsim",
            "level_claimed": {"category": c["cat"], "text": c["text"], "design_ref": "DESIGN.md section " + c["sec"]},
            "level_note": c["note"],
            "technique": c["tech"],
        })
    na = []
    for pid in ALL:
        if pid in CHECKS:
            continue
        na.append({"property_id": pid, "reason": NA.get(pid, NOT_BUILT)})
    m = {
        "version": 1,
        "setup_cmd": "./run setup",
        "hooks": {
            "guard": "ISAL_CRYPTO_VERIF",
            "enable": "make -f Makefile.unx -C /repo O=<dir outside /repo> lib_name=<dir>/isa-l_crypto.a D=ISAL_CRYPTO_VERIF [FIPS_MODE=y] lib  (tools/build_lib.sh; NASM and C both get -DISAL_CRYPTO_VERIF)",
            "baseline_off_cmd": "make -C /repo -j8 check",
            "source_commits": hook_commits(),
            "add_only": True,
        },
        "engines": [{
            "name": "isalsim", "path": "/verif/sim",
            "serves_properties": sorted(CHECKS.keys()),
            "kind_free_text": "hand-written deterministic simulator (C++17 + NASM): seeded plan generator, logical-client / coroutine scheduler, guard-paged memory map, register-poisoning call trampoline, simulated CPUID, reference models, ddmin shrinker, replay files",
        }],
        "checks": checks,
        "not_applicable": na,
        "notes": "Every check rebuilds the library from /repo's working tree (hooks on) into /verif/build/<cfg>-<hash> and links the simulator against it. VERIF_SEED selects the seed (default 1). Known findings: /verif/known_findings.json.",
    }
    with open(os.path.join(ROOT, "MANIFEST.json"), "w") as f:
        json.dump(m, f, indent=1)
        f.write("\n")

if __name__ == "__main__":
    main()
