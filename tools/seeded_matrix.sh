#!/bin/bash
# tools/seeded_matrix.sh [ids...]
# Runs every quick check against every seeded change, each change applied in its own scratch worktree of
# /repo (outside /repo and /verif, removed afterwards; VERIF_REPO points the build at it), and writes
# seeded/matrix.tsv: one line per (change, check) with CAUGHT / missed / BROKEN.
set -u
ROOT="$(cd "$(dirname "$0")/.." && pwd)"
cd "$ROOT"
ids="${*:-$(ls seeded | grep -v matrix)}"
checks="${CHECKS:-C01 C05 C06 C07 C08 C09 C10 C11 C12 C13 C14 C15 C17 C18 C19 C20}"
out="${MATRIX_OUT:-$ROOT/seeded/matrix.tsv}"
: > "$out.tmp"
for id in $ids; do
  [ -f "seeded/$id/patch.diff" ] || continue
  wt="/tmp/wt/mx_$id.$$"
  git -C /repo worktree add --detach "$wt" HEAD -q || continue
  ( cd "$wt" && git apply "$ROOT/seeded/$id/patch.diff" ) || { git -C /repo worktree remove --force "$wt"; continue; }
  o="$ROOT/out/matrix/$id"; mkdir -p "$o/evidence"
  for c in $checks; do
    VERIF_REPO="$wt" VERIF_OUT="$o" VERIF_EVIDENCE_DIR="$o/evidence" ./run "$c" quick > "$o/$c.log" 2>&1; rc=$?
    case $rc in 1) res=CAUGHT;; 0) res=missed;; *) res="BROKEN($rc)";; esac
    printf "%s\t%s\t%s\t%s\n" "$id" "$c" "$res" "$(grep -m1 '^violation' "$o/$c.log" | cut -c1-160)" | tee -a "$out.tmp"
  done
  git -C /repo worktree remove --force "$wt"
  rm -rf "$ROOT/build/std-"* "$ROOT/build/fips-"* 2>/dev/null   # mutant builds are not worth keeping
done
mv "$out.tmp" "$out"
