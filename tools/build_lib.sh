#!/bin/bash
# build_lib.sh <cfg>   cfg in {std, fips}
# Builds /repo's *current working tree* (hooks on) into /verif/build/<cfg>-<hash>/ and
# prints that directory. Nothing is written into /repo; nothing is kept in /tmp.
set -euo pipefail
cfg="${1:-std}"
REPO="${VERIF_REPO:-/repo}"
ROOT="$(cd "$(dirname "$0")/.." && pwd)"
BUILD="$ROOT/build"
mkdir -p "$BUILD"
case "$cfg" in
  std)  extra="" ;;
  fips) extra="FIPS_MODE=y" ;;
  *) echo "unknown cfg $cfg" >&2; exit 2 ;;
esac
hash=$( (cd "$REPO" && find . -path ./.git -prune -o -path ./_build -prune -o -type f \
      \( -name '*.c' -o -name '*.h' -o -name '*.asm' -o -name '*.inc' -o -name '*.S' -o -name 'Makefile.am' \
         -o -name 'Makefile.unx' -o -name 'make.inc' -o -name '*.mk' \) -print0 | sort -z | xargs -0 sha256sum; \
      echo "$cfg $extra v5"; sha256sum "$ROOT/tools/isa_classify.py") | sha256sum | cut -c1-16)
dir="$BUILD/$cfg-$hash"
exec 9>"$BUILD/.lock-$cfg"
flock 9
if [ ! -f "$dir/.ok" ]; then
  rm -rf "$dir"; mkdir -p "$dir"
  if ! make -s -j"$(nproc)" -f Makefile.unx -C "$REPO" O="$dir/obj" lib_name="$dir/isa-l_crypto.a" \
        D=ISAL_CRYPTO_VERIF $extra lib >"$dir/build.log" 2>&1; then
    echo "BUILD FAILED (see $dir/build.log)" >&2; tail -20 "$dir/build.log" >&2; exit 2
  fi
  nm "$dir/isa-l_crypto.a" > "$dir/nm.txt" 2>/dev/null || true
  if ! python3 "$ROOT/tools/isa_classify.py" "$dir/obj" "$dir/isa_need.tsv" >>"$dir/build.log" 2>&1; then
    echo "ISA CLASSIFIER FAILED (see $dir/build.log)" >&2; exit 2
  fi
  touch "$dir/.ok"
  # prune older builds of this cfg
  for d in "$BUILD/$cfg"-*; do [ "$d" != "$dir" ] && rm -rf "$d"; done
fi
echo "$dir"
