#!/bin/bash
# tools/verify_candidate.sh <src dir with patch.diff, run_demo.sh, meta.json> <seeded id>
# Re-verifies a candidate breaking change in a fresh scratch worktree of /repo (outside /repo and /verif):
#   1. patch applies and the 37-test baseline passes with it,
#   2. the demonstration fails with the change,
#   3. the demonstration passes without it.
# On success the candidate is copied to /verif/seeded/<id>/ . The worktree is removed afterwards.
set -u
src="$1"; id="$2"
ROOT="$(cd "$(dirname "$0")/.." && pwd)"
wt="/tmp/wt/verify_$id"
log="/tmp/wt/verify_$id.log"
git -C /repo worktree remove --force "$wt" >/dev/null 2>&1
git -C /repo worktree add --detach "$wt" HEAD -q || exit 2
cleanup() { git -C /repo worktree remove --force "$wt" >/dev/null 2>&1; }
trap cleanup EXIT
ok=1
( cd "$wt" && git apply "$src/patch.diff" ) || { echo "patch does not apply"; exit 1; }
echo "== baseline with change" | tee "$log"
/tmp/wt/run_baseline.sh "$wt" 2>&1 | tee -a "$log" | grep -E "^# (PASS|FAIL|TOTAL)|FAILED"
grep -q "^# PASS:  37" "$log" && grep -q "^# FAIL:  0" "$log" || { echo "baseline does not pass with the change"; ok=0; }
echo "== demo with change" | tee -a "$log"
( cd "$src" && timeout 1800 bash ./run_demo.sh "$wt" ) >>"$log" 2>&1; rc_with=$?
echo "demo exit with change: $rc_with" | tee -a "$log"
( cd "$wt" && git checkout -q -- . )
echo "== demo without change" | tee -a "$log"
( cd "$src" && timeout 1800 bash ./run_demo.sh "$wt" ) >>"$log" 2>&1; rc_without=$?
echo "demo exit without change: $rc_without" | tee -a "$log"
[ $rc_with -ne 0 ] && [ $rc_without -eq 0 ] || ok=0
if [ $ok = 1 ]; then
  mkdir -p "$ROOT/seeded/$id"
  cp -a "$src"/. "$ROOT/seeded/$id/"
  rm -rf "$ROOT/seeded/$id"/*.o "$ROOT/seeded/$id"/demo "$ROOT/seeded/$id"/a.out 2>/dev/null
  echo "VERIFIED: kept as seeded/$id"
else
  echo "REJECTED (see $log)"; exit 1
fi
