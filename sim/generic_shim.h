/* generic_shim.h - pre-included when compiling /repo/fips/self_tests_generic.c (the C11-atomics variant of the
 * self-test once-protocol used on non-x86 targets) for FipsRaceSim: every atomic access and every sleep becomes a
 * yield point of the simulator's scheduler followed by the real operation. */
#ifndef GENERIC_SHIM_H
#define GENERIC_SHIM_H
#include <stdatomic.h>
#include <unistd.h>
void generic_shim_point(volatile void *addr, int kind); /* 1 load, 2 store, 3 cas, 4 sleep */
#undef atomic_load
#undef atomic_store
#undef atomic_compare_exchange_strong
#define atomic_load(p) (generic_shim_point((volatile void *) (p), 1), __atomic_load_n((p), __ATOMIC_SEQ_CST))
#define atomic_store(p, v) (generic_shim_point((volatile void *) (p), 2), __atomic_store_n((p), (v), __ATOMIC_SEQ_CST))
#define atomic_compare_exchange_strong(p, e, d)                                                                                            \
        (generic_shim_point((volatile void *) (p), 3), __atomic_compare_exchange_n((p), (e), (d), 0, __ATOMIC_SEQ_CST, __ATOMIC_SEQ_CST))
#define usleep(x) generic_shim_point((volatile void *) 0, 4)
#endif
