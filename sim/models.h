// models.h — small executable reference models used as oracles. Written from the
// standards (FIPS 180-4, RFC 1321, GB/T 32905-2016, MurmurHash3 reference) and from the
// property texts; independent of the repository's *_ref.c. Self-checked at start-up.
#pragma once
#include <cstdint>
#include <cstddef>
#include <vector>
#include <string>

enum Algo { A_SHA1 = 0, A_SHA256 = 1, A_SHA512 = 2, A_MD5 = 3, A_SM3 = 4, A_N = 5 };
extern const char *algo_name[A_N];

// Streaming reference hash. Digest is delivered as bytes in the standard's output order.
struct RefHash {
        Algo a;
        uint64_t h64[8];   // SHA-512 state
        uint32_t h32[8];   // others
        uint8_t buf[128];
        size_t blen = 0;
        unsigned __int128 total = 0;
        explicit RefHash(Algo a_);
        void reset();
        void update(const void *p, size_t n);
        // finishes a *copy* of the state: may be called repeatedly
        std::vector<uint8_t> digest_bytes() const;
        size_t block() const { return a == A_SHA512 ? 128 : 64; }
        size_t digest_len() const;
        // bare compression (no padding) for multi-hash segments
        void compress(const uint8_t *blk);
};

// The word array the library's context exposes (isal_hash_ctx_digest) for a given standard digest:
// SHA-1/256/SM3: 32-bit words, word i = big-endian bytes [4i,4i+4) ; SHA-512: 64-bit big-endian words;
// MD5: 32-bit little-endian words. Returns bytes as they lie in memory on this (little-endian) host.
std::vector<uint8_t> ctx_digest_image(Algo a, const std::vector<uint8_t> &std_digest);

// multi-hash (mh_sha1: 5 words, mh_sha256: 8 words). Returns the digest as the 32-bit words
// the library writes (host-endian uint32 array image).
std::vector<uint8_t> ref_mh(bool sha256, const uint8_t *data, size_t n);

void ref_murmur3_x64_128(const uint8_t *data, size_t n, uint64_t seed, uint8_t out[16]);

// rolling hash model
struct RefRolling {
        uint32_t w = 0;
        std::vector<uint8_t> window; // last w stream bytes, oldest first
        void init(uint32_t w_) { w = w_; window.assign(w_, 0); }
        void reset(const uint8_t *init) { window.assign(init, init + w); }
        uint64_t hash() const; // non-incremental definition over the window
        // run over buf[0..max_len): returns match flag, *offset = bytes consumed
        int run(const uint8_t *buf, uint32_t max_len, uint32_t mask, uint32_t trigger, uint32_t *offset);
};
uint32_t ref_mask_gen(uint32_t mean, uint32_t shift);

// returns empty string when every model reproduces its published vectors
std::string models_selftest();
