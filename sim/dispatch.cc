// dispatch.cc — DispatchSim (C12): simulated CPUID/XGETBV, every dispatch resolver run under it,
// bound target checked against the instruction classes it needs (from disassembly of the freshly
// built objects), family consistency per shared object, binding stability.
#include "sim.h"
#include <algorithm>
#include <fstream>
#include <sstream>

extern "C" {
#include "sha256_mb.h"
#include "sha512_mb.h"
#include "md5_mb.h"
#include "sha1_mb.h"
#include "sm3_mb.h"
#include "mh_sha1.h"
#include "mh_sha256.h"
}

namespace {

struct Entry {
        std::string name; // e.g. _sha256_ctx_mgr_submit
        void **slot;
        void *mbinit, *dinit, *pub;
        std::string group; // shared-object group ("" = none)
        bool aes;
};
static std::vector<Entry> g_entries;
static std::map<std::string, std::set<std::string>> g_need; // symbol -> feature classes (closure)
static bool g_need_loaded = false;
static std::string g_need_err;

static const char *JUDGED[] = { "SSE4_1", "SSE4_2", "AVX", "AVX2", "AVX512F", "AVX512DQ", "AVX512CD", "AVX512BW", "AVX512VL",
                                "VBMI2",  "GFNI",   "VAES", "VPCLMULQDQ", "VNNI", "BITALG", "VPOPCNTDQ", "SHA" };

static void load_need()
{
        if (g_need_loaded)
                return;
        g_need_loaded = true;
        const char *p = getenv("ISALSIM_NEED");
        if (!p) {
                g_need_err = "ISALSIM_NEED not set (instruction-class table of the built objects)";
                return;
        }
        std::ifstream f(p);
        if (!f) {
                g_need_err = std::string("cannot read ") + p;
                return;
        }
        std::string ln;
        while (std::getline(f, ln)) {
                std::stringstream ss(ln);
                std::string sym, feats, obj;
                std::getline(ss, sym, '\t');
                std::getline(ss, feats, '\t');
                std::set<std::string> s;
                std::stringstream fs(feats);
                std::string t;
                while (std::getline(fs, t, ','))
                        if (!t.empty())
                                s.insert(t);
                g_need[sym] = s;
        }
}

static std::string group_of(const std::string &n)
{
        // hash managers: init/submit/flush per algorithm
        for (const char *a : { "sha1", "sha256", "sha512", "md5", "sm3" }) {
                std::string pre = std::string("_") + a + "_ctx_mgr_";
                if (n.compare(0, pre.size(), pre) == 0)
                        return std::string("hash:") + a;
        }
        if (n.compare(0, 9, "_aes_gcm_") == 0) {
                if (n.find("_128") != std::string::npos)
                        return "gcm:128";
                if (n.find("_256") != std::string::npos)
                        return "gcm:256";
        }
        if (n == "_mh_sha1_update" || n == "_mh_sha1_finalize")
                return "mh:sha1";
        if (n == "_mh_sha256_update" || n == "_mh_sha256_finalize")
                return "mh:sha256";
        if (n == "_mh_sha1_murmur3_x64_128_update" || n == "_mh_sha1_murmur3_x64_128_finalize")
                return "mh:sha1_murmur3";
        return "";
}

// family label of a bound target, e.g. _sha256_ctx_mgr_submit_avx2 -> avx2 ; _aes_gcm_enc_128_update_sse_nt -> sse
static std::string family_of(const std::string &entry, const std::string &target)
{
        std::string t = target;
        if (t.compare(0, entry.size(), entry) == 0 && t.size() > entry.size() + 1)
                t = t.substr(entry.size() + 1);
        else {
                // _nt entries: _aes_gcm_enc_128_nt -> targets _aes_gcm_enc_128_<fam>_nt
                std::string e2 = entry;
                size_t k = e2.rfind("_nt");
                if (k != std::string::npos && k + 3 == e2.size()) {
                        e2 = e2.substr(0, k);
                        if (t.compare(0, e2.size(), e2) == 0)
                                t = t.substr(e2.size() + 1);
                }
        }
        size_t k = t.rfind("_nt");
        if (k != std::string::npos && k + 3 == t.size())
                t = t.substr(0, k);
        return t;
}

static void discover()
{
        if (!g_entries.empty())
                return;
        for (auto &s : symbols_matching("", "_dispatched")) {
                std::string n = s.substr(0, s.size() - strlen("_dispatched"));
                Entry e;
                e.name = n;
                e.slot = (void **) libsym(s.c_str());
                e.mbinit = libsym((n + "_mbinit").c_str(), false);
                e.dinit = libsym((n + "_dispatch_init").c_str(), false);
                e.pub = libsym(n.c_str(), false);
                if (!e.mbinit || !e.dinit)
                        continue;
                e.group = group_of(n);
                e.aes = n.compare(0, 5, "_aes_") == 0 || n.compare(0, 8, "_XTS_AES") == 0;
                g_entries.push_back(e);
        }
}

// "a binding, once made, does not change": the slot is sampled at every simulated cpuid/xgetbv of the resolver. A value other than
// the <entry>_mbinit stub seen there is a binding made while the resolver is still asking the CPU; the final value must be that one.
static void **w_slot = nullptr;
static void *w_init = nullptr;
static std::vector<void *> w_seen;
static void watch_slot_hook(int, uintptr_t)
{
        if (!w_slot)
                return;
        void *v = *w_slot;
        if (v != w_init && (w_seen.empty() || w_seen.back() != v))
                w_seen.push_back(v);
}
struct SlotWatch {
        SlotWatch(void **slot, void *init)
        {
                w_slot = slot;
                w_init = init;
                w_seen.clear();
                g_cpu_yield_hook = watch_slot_hook;
        }
        ~SlotWatch()
        {
                g_cpu_yield_hook = nullptr;
                w_slot = nullptr;
        }
        // returns the first value that was visible during resolution and differs from the final binding (nullptr if none)
        void *changed(void *final_v) const
        {
                for (void *v : w_seen)
                        if (v != final_v)
                                return v;
                return nullptr;
        }
};

struct DispatchSim : Sim {
        const char *name() const override { return "dispatch"; }
        void process_init() override
        {
                discover();
                load_need();
        }
        std::vector<std::string> real_components() const override
        {
                return { "all dispatch resolvers (<entry>_dispatch_init generated by include/multibinary.asm macros, sha512_multibinary.asm, "
                         "rolling_hash2_multibinary.asm) and the <entry>_mbinit / jmp [<entry>_dispatched] trampolines",
                         "bound family code for the entry points called for real (manager init, key expansion, mh update)" };
        }
        std::vector<std::string> stub_components() const override
        {
                return { "CPUID leaf 1/7 and XGETBV answers (hook H1)", "instruction-class table: tools/isa_classify.py over the freshly built objects" };
        }

        enum { OP_PROBE = 1, OP_REALCALL = 2 };

        static void make_consistent(SimCPU &c)
        {
                uint32_t &e1 = c.l1_ecx, &b7 = c.l7_ebx, &c7 = c.l7_ecx;
                bool avoton = (c.l1_eax & 0xfffffff0u) == 0x000406d0u;
                if (avoton)
                        e1 &= ~C1_AVX; // Silvermont has no AVX
                if (!(e1 & C1_SSE4_1))
                        e1 &= ~C1_SSE4_2;
                if (!(e1 & C1_SSE4_2))
                        e1 &= ~C1_AVX;
                if (!(e1 & C1_AVX))
                        b7 &= ~C7_AVX2;
                if (!(b7 & C7_AVX2))
                        b7 &= ~C7_AVX512F;
                if (!(b7 & C7_AVX512F)) {
                        b7 &= ~(C7_AVX512DQ | C7_AVX512CD | C7_AVX512BW | C7_AVX512VL);
                        c7 &= ~(C7C_VBMI2 | C7C_VNNI | C7C_BITALG | C7C_VPOPCNTDQ);
                }
                if (!(e1 & C1_AVX))
                        c7 &= ~(C7C_VAES | C7C_VPCLMULQDQ);
                if (!(e1 & C1_SSE4_2)) {
                        b7 &= ~C7_SHA;
                        c7 &= ~C7C_GFNI;
                }
                // OS state
                if (!(e1 & C1_OSXSAVE))
                        c.xcr0 = 0;
                else {
                        c.xcr0 |= 1 | 2; // x87 and SSE state are always enabled once XSAVE is
                        if (!(e1 & C1_AVX))
                                c.xcr0 &= ~(uint64_t) 4;
                        if (!(c.xcr0 & 4) || !(b7 & C7_AVX512F))
                                c.xcr0 &= ~(uint64_t) 0xe0;
                        if ((c.xcr0 & 0xe0) != 0xe0)
                                c.xcr0 &= ~(uint64_t) 0xe0; // opmask/ZMM_Hi256/Hi16_ZMM are enabled together
                }
        }

        static void cpu_from_cfg(const Plan &p, const char *pre, SimCPU &c)
        {
                c = SimCPU();
                c.passthrough = false;
                c.l1_eax = (uint32_t) p.get((std::string(pre) + "l1_eax").c_str(), 0x000906ea);
                c.l1_ecx = (uint32_t) p.get((std::string(pre) + "l1_ecx").c_str());
                c.l1_edx = 0x078bfbff;
                c.l7_ebx = (uint32_t) p.get((std::string(pre) + "l7_ebx").c_str());
                c.l7_ecx = (uint32_t) p.get((std::string(pre) + "l7_ecx").c_str());
                c.xcr0 = (uint64_t) p.get((std::string(pre) + "xcr0").c_str());
                make_consistent(c);
        }

        static void draw_cpu(Rng &g, Plan &p, const char *pre, int *klass)
        {
                uint32_t full1 = C1_SSE4_1 | C1_SSE4_2 | C1_OSXSAVE | C1_AVX | C1_AESNI | C1_CLMUL | 1 | (1u << 9);
                uint32_t full7b = C7_AVX2 | C7_AVX512_G1 | C7_SHA;
                uint32_t full7c = C7C_AVX512_G2;
                uint64_t fullx = 0xe7;
                uint32_t e1 = full1, b7 = full7b, c7 = full7c, eax = 0x000906ea;
                uint64_t x = fullx;
                int k = (int) g.below(11);
                *klass = k;
                switch (k) {
                case 0: // uniformly random bits
                        e1 = (uint32_t) g.next() & full1;
                        b7 = (uint32_t) g.next() & full7b;
                        c7 = (uint32_t) g.next() & full7c;
                        x = g.next() & fullx;
                        break;
                case 1: // one feature masked from a complete profile (hypervisor)
                {
                        static const uint32_t b1[] = { C1_SSE4_1, C1_SSE4_2, C1_AVX };
                        static const uint32_t bb[] = { C7_AVX2, C7_AVX512F, C7_AVX512DQ, C7_AVX512CD, C7_AVX512BW, C7_AVX512VL, C7_SHA };
                        static const uint32_t bc[] = { C7C_VBMI2, C7C_GFNI, C7C_VAES, C7C_VPCLMULQDQ, C7C_VNNI, C7C_BITALG, C7C_VPOPCNTDQ };
                        int w = (int) g.below(17);
                        if (w < 3)
                                e1 &= ~b1[w];
                        else if (w < 10)
                                b7 &= ~bb[w - 3];
                        else
                                c7 &= ~bc[w - 10];
                        break;
                }
                case 2: // OS has not enabled (some) extended state
                        x = g.chance(1, 2) ? 0x3 : g.chance(1, 2) ? 0x7 : (g.next() & fullx);
                        break;
                case 3: // OSXSAVE clear although AVX is reported
                        e1 &= ~C1_OSXSAVE;
                        break;
                case 4: // partial AVX-512 group 1
                        b7 = (b7 & ~C7_AVX512_G1) | C7_AVX512F | ((uint32_t) g.next() & C7_AVX512_G1);
                        if (g.chance(1, 2))
                                c7 = (uint32_t) g.next() & full7c;
                        break;
                case 5: // partial group 2
                        c7 = (uint32_t) g.next() & full7c;
                        break;
                case 6: // SHA on a part without AVX
                        e1 &= ~C1_AVX;
                        if (g.chance(1, 2))
                                e1 &= ~C1_OSXSAVE;
                        break;
                case 7: // Avoton
                        eax = 0x000406d0 | (uint32_t) g.below(16);
                        e1 &= ~C1_AVX;
                        if (g.chance(1, 3))
                                e1 &= ~(C1_SSE4_1 | C1_SSE4_2);
                        break;
                case 8: // old part: subsets of the SSE/AVX ladder
                        e1 = (uint32_t) g.next() & full1;
                        b7 = g.chance(1, 2) ? 0 : ((uint32_t) g.next() & (C7_AVX2 | C7_SHA));
                        c7 = 0;
                        break;
                case 9: // complete profile
                        break;
                default: // AVX2 part with random leaf-7 ecx bits and SHA
                        b7 = C7_AVX2 | ((uint32_t) g.next() & C7_SHA);
                        c7 = (uint32_t) g.next() & full7c;
                        break;
                }
                p.cfg[std::string(pre) + "l1_eax"] = eax;
                p.cfg[std::string(pre) + "l1_ecx"] = e1;
                p.cfg[std::string(pre) + "l7_ebx"] = b7;
                p.cfg[std::string(pre) + "l7_ecx"] = c7;
                p.cfg[std::string(pre) + "xcr0"] = (int64_t) x;
        }

        Plan generate(uint64_t seed, const std::string &, bool, uint64_t) override
        {
                Rng g(seed, "plan");
                Plan p;
                int k1, k2;
                draw_cpu(g, p, "a_", &k1);
                draw_cpu(g, p, "b_", &k2);
                p.cfg["class_a"] = k1;
                // probe every entry (seeded order), then a few real first calls
                std::vector<int> order(g_entries.size());
                for (size_t i = 0; i < order.size(); i++)
                        order[i] = (int) i;
                for (size_t i = order.size(); i > 1; i--)
                        std::swap(order[i - 1], order[g.below(i)]);
                for (int i : order) {
                        Op o;
                        o.kind = OP_PROBE;
                        o.a = i;
                        p.ops.push_back(o);
                }
                int nreal = 2 + (int) g.below(5);
                for (int i = 0; i < nreal; i++) {
                        Op o;
                        o.kind = OP_REALCALL;
                        o.a = (int64_t) g.below(64);
                        o.b = (int64_t) g.below(1 << 16);
                        p.ops.insert(p.ops.begin() + g.below(p.ops.size() + 1), o);
                }
                return p;
        }
        std::string render(const Plan &p) const override
        {
                SimCPU a, b;
                cpu_from_cfg(p, "a_", a);
                cpu_from_cfg(p, "b_", b);
                return "cpu A: " + a.str() + " | cpu B: " + b.str() + strfmt(" | %zu resolver probes / real first calls", p.ops.size());
        }

        static std::set<std::string> avail(const SimCPU &c)
        {
                std::set<std::string> a;
                bool osx = c.l1_ecx & C1_OSXSAVE;
                bool avx = (c.l1_ecx & C1_AVX) && osx && (c.xcr0 & 6) == 6;
                bool avx2 = avx && (c.l7_ebx & C7_AVX2);
                bool f = avx && (c.l7_ebx & C7_AVX512F) && (c.xcr0 & 0xe0) == 0xe0;
                if (c.l1_ecx & C1_SSE4_1)
                        a.insert("SSE4_1");
                if (c.l1_ecx & C1_SSE4_2)
                        a.insert("SSE4_2");
                if (avx)
                        a.insert("AVX");
                if (avx2)
                        a.insert("AVX2");
                if (f) {
                        a.insert("AVX512F");
                        if (c.l7_ebx & C7_AVX512DQ)
                                a.insert("AVX512DQ");
                        if (c.l7_ebx & C7_AVX512CD)
                                a.insert("AVX512CD");
                        if (c.l7_ebx & C7_AVX512BW)
                                a.insert("AVX512BW");
                        if (c.l7_ebx & C7_AVX512VL)
                                a.insert("AVX512VL");
                        if (c.l7_ecx & C7C_VBMI2)
                                a.insert("VBMI2");
                        if (c.l7_ecx & C7C_VNNI)
                                a.insert("VNNI");
                        if (c.l7_ecx & C7C_BITALG)
                                a.insert("BITALG");
                        if (c.l7_ecx & C7C_VPOPCNTDQ)
                                a.insert("VPOPCNTDQ");
                }
                if (avx && (c.l7_ecx & C7C_VAES))
                        a.insert("VAES");
                if (avx && (c.l7_ecx & C7C_VPCLMULQDQ))
                        a.insert("VPCLMULQDQ");
                if (c.l7_ecx & C7C_GFNI)
                        a.insert("GFNI");
                if (c.l7_ebx & C7_SHA)
                        a.insert("SHA");
                return a;
        }

        void judge_binding(const Entry &en, void *target, const SimCPU &cpu, Env &e, RunResult &r, std::map<std::string, std::string> &group_family)
        {
                std::string tsym = addr_to_sym((uintptr_t) target);
                size_t plus = tsym.rfind('+');
                std::string tname = tsym.substr(0, plus);
                bool exact = plus != std::string::npos && tsym.substr(plus) == "+0";
                e.obs(0x900, hash_str(tname.c_str()));
                if (!exact || target == en.mbinit) {
                        e.violation("C12", "not-bound", "C12/not-bound/" + en.name,
                                    strfmt("%s: after the resolver ran the slot holds %s, not an implementation entry point", en.name.c_str(), tsym.c_str()));
                        return;
                }
                // the bound symbol must be an implementation of *this* entry point: its name is the entry's name plus family words only
                // (a flush slot bound to a submit routine of the right family passes every instruction-set test)
                {
                        auto toks = [](const std::string &s) {
                                std::vector<std::string> v;
                                std::string cur;
                                for (char ch : s) {
                                        if (ch == '_') {
                                                if (!cur.empty())
                                                        v.push_back(cur);
                                                cur.clear();
                                        } else
                                                cur += ch;
                                }
                                if (!cur.empty())
                                        v.push_back(cur);
                                return v;
                        };
                        static const std::set<std::string> famwords = { "base", "sse", "sse4", "sb", "avx", "avx2", "avx512", "ni", "gen2", "gen4", "vaes", "x4", "x8", "00", "04", "aesni" };
                        std::vector<std::string> et = toks(en.name), tt = toks(tname);
                        std::multiset<std::string> extra(tt.begin(), tt.end());
                        bool ok = true;
                        for (auto &w : et) {
                                auto f = extra.find(w);
                                if (f == extra.end())
                                        ok = false;
                                else
                                        extra.erase(f);
                        }
                        for (auto &w : extra)
                                if (!famwords.count(w))
                                        ok = false;
                        if (!ok)
                                e.violation("C12", "wrong-role", "C12/wrong-role/" + en.name,
                                            strfmt("%s binds to %s, which is not an implementation of that entry point, on [%s]", en.name.c_str(), tname.c_str(), cpu.str().c_str()));
                }
                auto it = g_need.find(tname);
                if (it == g_need.end()) {
                        e.violation("C12", "unknown-target", "C12/unknown-target/" + en.name,
                                    strfmt("%s bound to %s which the instruction classifier does not know", en.name.c_str(), tname.c_str()));
                        return;
                }
                std::set<std::string> av = avail(cpu);
                if (en.aes)
                        av.insert("SSE4_1"); // documented requirement of every AES entry point (headers: "@requires SSE4.1 and AESNI")
                std::string missing;
                for (const char *j : JUDGED)
                        if (it->second.count(j) && !av.count(j))
                                missing += (missing.empty() ? "" : ",") + std::string(j);
                r.cov.state(mix64(hash_str(en.name.c_str()), hash_str(tname.c_str())));
                r.cov.hit("binding_judged");
                if (!missing.empty())
                        e.violation("C12", "unavailable-isa", "C12/unavailable-isa/" + en.name + "/" + family_of(en.name, tname),
                                    strfmt("%s binds to %s, which executes %s instructions, on a machine that reports [%s]", en.name.c_str(), tname.c_str(),
                                           missing.c_str(), cpu.str().c_str()));
                if (!en.group.empty()) {
                        std::string fam = family_of(en.name, tname);
                        auto gi = group_family.find(en.group);
                        if (gi == group_family.end())
                                group_family[en.group] = fam + "\t" + en.name;
                        else {
                                std::string f0 = gi->second.substr(0, gi->second.find('\t'));
                                if (f0 != fam)
                                        e.violation("C12", "mixed-families", "C12/mixed-families/" + en.group,
                                                    strfmt("entry points of one object bind to different families on [%s]: %s -> %s, but %s -> %s", cpu.str().c_str(),
                                                           en.name.c_str(), fam.c_str(), gi->second.substr(gi->second.find('\t') + 1).c_str(), f0.c_str()));
                        }
                }
        }

        void check_resolver_regs(const Entry &en, Env &e, const uint64_t args_in[6], uint64_t r10_in, uint64_t r11_in, uint64_t rax_in)
        {
                static const char *nm[8] = { "rdi", "rsi", "rdx", "rcx", "r8", "r9", "r10", "r11" };
                SimFrame &f = *e.frame;
                for (int i = 0; i < 8; i++) {
                        uint64_t want = i < 6 ? args_in[i] : i == 6 ? r10_in : r11_in;
                        if (f.out_gpr[i] != want)
                                e.violation("C19", "resolver-clobber", std::string("C19/resolver-clobber/") + nm[i] + "/" + en.name,
                                            strfmt("%s_dispatch_init clobbered %s (argument registers must survive the first call)", en.name.c_str(), nm[i]));
                }
                if (f.out_rax != rax_in)
                        e.violation("C19", "resolver-clobber", "C19/resolver-clobber/rax/" + en.name, strfmt("%s_dispatch_init clobbered rax", en.name.c_str()));
                // vector registers must survive as well
                if (memcmp(f.vec_in, f.vec_out, sizeof f.vec_in) != 0 || memcmp(f.in_k, f.out_k, sizeof f.in_k) != 0)
                        e.violation("C19", "resolver-clobber", "C19/resolver-clobber/vector/" + en.name,
                                    strfmt("%s_dispatch_init changed a vector or mask register", en.name.c_str()));
        }

        void execute(const Plan &p, Env &e, RunResult &r) override
        {
                if (!g_need_err.empty()) {
                        fprintf(stderr, "HARNESS: %s\n", g_need_err.c_str());
                        exit(2);
                }
                SimCPU cpuA, cpuB;
                cpu_from_cfg(p, "a_", cpuA);
                cpu_from_cfg(p, "b_", cpuB);
                std::vector<void *> saved;
                for (auto &en : g_entries)
                        saved.push_back(*en.slot);
                struct Restore {
                        std::vector<void *> &sv;
                        ~Restore()
                        {
                                for (size_t i = 0; i < g_entries.size(); i++)
                                        *g_entries[i].slot = sv[i];
                                g_simcpu = SimCPU();
                        }
                } restore{ saved };
                g_simcpu = cpuA;
                r.cov.state(cpuA.projection());
                static const char *kn[11] = { "random_bits", "one_feature_masked", "os_state_disabled", "osxsave_clear", "partial_avx512_group1", "partial_group2",
                                              "sha_without_avx", "avoton", "old_part", "complete", "avx2_part_random_group2" };
                r.cov.hit(strfmt("fault_cpu_profile_%s", kn[p.get("class_a") % 11]));
                e.ev(cpuA.projection());
                std::map<std::string, std::string> group_family;
                for (size_t oi = 0; oi < p.ops.size(); oi++) {
                        e.op_index = (int) oi;
                        const Op &o = p.ops[oi];
                        if (o.kind == OP_PROBE) {
                                if (g_entries.empty())
                                        continue;
                                const Entry &en = g_entries[o.a % g_entries.size()];
                                *en.slot = en.mbinit; // re-arm
                                g_simcpu.n_cpuid = g_simcpu.n_xgetbv = 0;
                                g_simcpu.xgetbv_without_osxsave = false;
                                uint64_t a[6];
                                for (int i = 0; i < 6; i++)
                                        a[i] = mix64(p.seed, 0xa0 + i + 16 * oi);
                                // the resolver takes no arguments and must preserve every register
                                uint64_t rax_in, r10_in, r11_in;
                                std::vector<void *> slots_before;
                                for (auto &x : g_entries)
                                        slots_before.push_back(*x.slot);
                                {
                                        SlotWatch sw(en.slot, en.mbinit);
                                        // Env::call poisons rax/r10/r11 from the hidden stream; read them back from the frame afterwards
                                        e.call((en.name + "_dispatch_init").c_str(), en.dinit, { a[0], a[1], a[2], a[3], a[4], a[5] });
                                        if (void *early = sw.changed(*en.slot))
                                                e.violation("C12", "binding-changed", "C12/binding-changed/" + en.name,
                                                            strfmt("%s: the slot held %s while the resolver was still querying the CPU and %s afterwards", en.name.c_str(),
                                                                   addr_to_sym((uintptr_t) early).c_str(), addr_to_sym((uintptr_t) *en.slot).c_str()));
                                        rax_in = e.frame->in_rax;
                                        r10_in = e.frame->in_r10;
                                        r11_in = e.frame->in_r11;
                                }
                                // a resolver binds its own entry point and nothing else: the binding of another entry point, once made, does not change
                                for (size_t xi = 0; xi < g_entries.size(); xi++)
                                        if (&g_entries[xi] != &en && *g_entries[xi].slot != slots_before[xi])
                                                e.violation("C12", "binding-changed", "C12/binding-changed/" + g_entries[xi].name,
                                                            strfmt("the resolver of %s changed the binding of %s from %s to %s on [%s]", en.name.c_str(), g_entries[xi].name.c_str(),
                                                                   addr_to_sym((uintptr_t) slots_before[xi]).c_str(), addr_to_sym((uintptr_t) *g_entries[xi].slot).c_str(),
                                                                   cpuA.str().c_str()));
                                check_resolver_regs(en, e, a, r10_in, r11_in, rax_in);
                                if (g_simcpu.xgetbv_without_osxsave)
                                        e.violation("C12", "xgetbv-without-osxsave", "C12/xgetbv-without-osxsave/" + en.name,
                                                    strfmt("%s_dispatch_init executed XGETBV although CPUID reports OSXSAVE=0 (#UD) on [%s]", en.name.c_str(),
                                                           cpuA.str().c_str()));
                                judge_binding(en, *en.slot, cpuA, e, r, group_family);
                        } else {
                                real_call(o, e, r, cpuA, cpuB);
                        }
                }
                e.check_mem_all("end of run");
        }

        // a real first call through the public internal entry (mbinit -> resolver -> family code), then again under another CPU
        void real_call(const Op &o, Env &e, RunResult &r, const SimCPU &cpuA, const SimCPU &cpuB)
        {
                static const char *callable[] = { "_sha1_ctx_mgr_init", "_sha256_ctx_mgr_init", "_sha512_ctx_mgr_init", "_md5_ctx_mgr_init", "_sm3_ctx_mgr_init",
                                                  "_aes_keyexp_128",    "_aes_keyexp_256",      "_mh_sha1_update",      "_mh_sha256_update" };
                const char *nm = callable[o.a % 9];
                const Entry *en = nullptr;
                for (auto &x : g_entries)
                        if (x.name == nm)
                                en = &x;
                if (!en || !en->pub)
                        return;
                int which = (int) (o.a % 9);
                *en->slot = en->mbinit;
                g_simcpu = cpuA;
                g_simcpu.n_cpuid = g_simcpu.n_xgetbv = 0;
                auto do_call = [&]() {
                        if (which < 5) {
                                uint8_t *mgr = e.mem.alloc(sizeof(ISAL_MD5_HASH_CTX_MGR) + 64, 64, START_FLUSH, &e.hidden, "manager", R_OBJECT);
                                e.call(nm, en->pub, { U(mgr) });
                        } else if (which < 7) {
                                size_t kb = which == 5 ? 16 : 32;
                                uint8_t *key = e.mem.alloc(kb, 1, END_FLUSH, nullptr, "raw key", R_INPUT);
                                Rng g(o.b, "k");
                                g.fill(key, kb);
                                uint8_t *enc = e.mem.alloc(16 * 15, 16, END_FLUSH, &e.hidden, "enc schedule", R_OUTPUT);
                                uint8_t *dec = e.mem.alloc(16 * 15, 16, END_FLUSH, &e.hidden, "dec schedule", R_OUTPUT);
                                e.call(nm, en->pub, { U(key), U(enc), U(dec) });
                                e.obs_bytes(0x910, enc, 16 * (which == 5 ? 11 : 15));
                        } else {
                                size_t sz = which == 7 ? sizeof(struct isal_mh_sha1_ctx) : sizeof(struct isal_mh_sha256_ctx);
                                uint8_t *ctx = e.mem.alloc(sz, 64, START_FLUSH, nullptr, "mh context", R_OBJECT);
                                void *init = libsym(which == 7 ? "_mh_sha1_init" : "_mh_sha256_init");
                                e.call(which == 7 ? "_mh_sha1_init" : "_mh_sha256_init", init, { U(ctx) });
                                size_t n = 1500 + (size_t) (o.b % 2000);
                                uint8_t *buf = e.mem.alloc(n, 1, END_FLUSH, nullptr, "stream fragment", R_INPUT);
                                Rng g(o.b, "d");
                                g.fill(buf, n);
                                e.call(nm, en->pub, { U(ctx), U(buf), n });
                        }
                };
                do_call();
                void *bound = *en->slot;
                uint64_t q = g_simcpu.n_cpuid + g_simcpu.n_xgetbv;
                e.obs(0x920, hash_str(addr_to_sym((uintptr_t) bound).c_str()));
                r.cov.hit("probe_real_first_call");
                if (bound == en->mbinit || q == 0)
                        e.violation("C12", "not-bound", "C12/not-bound/" + en->name, strfmt("%s: a real first call did not resolve the binding", nm));
                std::map<std::string, std::string> gf;
                judge_binding(*en, bound, cpuA, e, r, gf);
                // second call under a different machine: the binding must not change and no CPU query may happen
                g_simcpu = cpuB;
                g_simcpu.n_cpuid = g_simcpu.n_xgetbv = 0;
                do_call();
                if (*en->slot != bound)
                        e.violation("C12", "binding-changed", "C12/binding-changed/" + en->name,
                                    strfmt("%s: binding changed from %s to %s on a later call", nm, addr_to_sym((uintptr_t) bound).c_str(),
                                           addr_to_sym((uintptr_t) *en->slot).c_str()));
                if (g_simcpu.n_cpuid + g_simcpu.n_xgetbv != 0)
                        e.violation("C12", "requeried", "C12/requeried/" + en->name, strfmt("%s: the CPU was queried again after the binding was made", nm));
                g_simcpu = cpuA;
                r.cov.hit("probe_second_call_under_other_cpu");
        }
};

} // namespace

Sim *make_dispatch_sim() { return new DispatchSim(); }
