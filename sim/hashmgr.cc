// hashmgr.cc — HashMgrSim: many logical clients share one multi-buffer hash manager.
// Decides C01 (digests), C06 (conservation / drain liveness), C11 (rejected submits), C15 (length
// accounting, long-stream workload) and feeds the C08/C19/C20 monitors.
#include "sim.h"
#include "models.h"
#include <sys/mman.h>
#include <unistd.h>
#include <algorithm>

extern "C" {
#include "sha1_mb.h"
#include "sha256_mb.h"
#include "sha512_mb.h"
#include "md5_mb.h"
#include "sm3_mb.h"
#include "isal_crypto_api.h"
}

namespace {

struct Family {
        std::string name;
        int lanes;
        void *init, *submit, *flush;
};

struct AlgoDesc {
        Algo a;
        const char *name;
        size_t mgr_size, ctx_size;
        size_t off_digest, digest_bytes, off_status, off_error, off_total, off_partial, off_partial_len, off_user, off_job_user;
        size_t block, lenfield;
        std::vector<Family> fams;
        void *isal_init, *isal_submit, *isal_flush;
        void *leg_init, *leg_submit, *leg_flush;
        void **disp_init, **disp_submit, **disp_flush; // <entry>_dispatched slots
        size_t mgr_align = 64, ctx_align = 64;        // what the public types demand (alignof)
};

#define DESC(A, T, NAME, LF)                                                                                                               \
        {                                                                                                                                  \
                A, NAME, sizeof(ISAL_##T##_HASH_CTX_MGR), sizeof(ISAL_##T##_HASH_CTX), offsetof(ISAL_##T##_HASH_CTX, job.result_digest),      \
                        sizeof(((ISAL_##T##_HASH_CTX *) 0)->job.result_digest), offsetof(ISAL_##T##_HASH_CTX, status),                       \
                        offsetof(ISAL_##T##_HASH_CTX, error), offsetof(ISAL_##T##_HASH_CTX, total_length),                                   \
                        offsetof(ISAL_##T##_HASH_CTX, partial_block_buffer), offsetof(ISAL_##T##_HASH_CTX, partial_block_buffer_length),     \
                        offsetof(ISAL_##T##_HASH_CTX, user_data), offsetof(ISAL_##T##_HASH_CTX, job.user_data), ISAL_##T##_BLOCK_SIZE, LF,   \
                        {}, 0, 0, 0, 0, 0, 0, 0, 0, 0, alignof(ISAL_##T##_HASH_CTX_MGR), alignof(ISAL_##T##_HASH_CTX)                        \
        }

static AlgoDesc g_algos[A_N] = {
        DESC(A_SHA1, SHA1, "sha1", 8),   DESC(A_SHA256, SHA256, "sha256", 8), DESC(A_SHA512, SHA512, "sha512", 16),
        DESC(A_MD5, MD5, "md5", 8),      DESC(A_SM3, SM3, "sm3", 8),
};

struct FamSpec {
        const char *fam;
        int lanes;
};
static const std::vector<FamSpec> fam_specs[A_N] = {
        /* sha1   */ { { "base", 0 }, { "sse", 4 }, { "sse_ni", 4 }, { "avx", 4 }, { "avx2", 8 }, { "avx512", 16 }, { "avx512_ni", 16 } },
        /* sha256 */ { { "base", 0 }, { "sse", 4 }, { "sse_ni", 4 }, { "avx", 4 }, { "avx2", 8 }, { "avx512", 16 }, { "avx512_ni", 16 } },
        /* sha512 */ { { "base", 0 }, { "sse", 2 }, { "sb_sse4", 0 }, { "avx", 2 }, { "avx2", 4 }, { "avx512", 8 } },
        /* md5    */ { { "base", 0 }, { "sse", 8 }, { "avx", 8 }, { "avx2", 16 }, { "avx512", 32 } },
        /* sm3    */ { { "base", 0 }, { "avx2", 8 }, { "avx512", 16 } },
};

static bool g_inited = false;
static void init_algos()
{
        if (g_inited)
                return;
        g_inited = true;
        for (int a = 0; a < A_N; a++) {
                AlgoDesc &d = g_algos[a];
                for (auto &fs : fam_specs[a]) {
                        Family f;
                        f.name = fs.fam;
                        f.lanes = fs.lanes;
                        f.init = libsym(strfmt("_%s_ctx_mgr_init_%s", d.name, fs.fam).c_str());
                        f.submit = libsym(strfmt("_%s_ctx_mgr_submit_%s", d.name, fs.fam).c_str());
                        f.flush = libsym(strfmt("_%s_ctx_mgr_flush_%s", d.name, fs.fam).c_str());
                        d.fams.push_back(f);
                }
                d.isal_init = libsym(strfmt("isal_%s_ctx_mgr_init", d.name).c_str());
                d.isal_submit = libsym(strfmt("isal_%s_ctx_mgr_submit", d.name).c_str());
                d.isal_flush = libsym(strfmt("isal_%s_ctx_mgr_flush", d.name).c_str());
                d.leg_init = libsym(strfmt("%s_ctx_mgr_init", d.name).c_str());
                d.leg_submit = libsym(strfmt("%s_ctx_mgr_submit", d.name).c_str());
                d.leg_flush = libsym(strfmt("%s_ctx_mgr_flush", d.name).c_str());
                d.disp_init = (void **) libsym(strfmt("_%s_ctx_mgr_init_dispatched", d.name).c_str());
                d.disp_submit = (void **) libsym(strfmt("_%s_ctx_mgr_submit_dispatched", d.name).c_str());
                d.disp_flush = (void **) libsym(strfmt("_%s_ctx_mgr_flush_dispatched", d.name).c_str());
        }
}

enum { OP_SUBMIT = 1, OP_FLUSH = 2, OP_DRAIN = 3, OP_RESTART = 4, OP_ZERO_LAST = 5, OP_REJECT = 6, OP_LONG = 7 };
enum { API_FAMILY = 0, API_ISAL = 1, API_LEGACY = 2 };
enum { RJ_BAD_FLAGS = 0, RJ_PROCESSING = 1, RJ_COMPLETED = 2 };

static const char *opname(int k)
{
        switch (k) {
        case OP_SUBMIT: return "SUBMIT";
        case OP_FLUSH: return "FLUSH";
        case OP_DRAIN: return "DRAIN";
        case OP_RESTART: return "RESTART";
        case OP_ZERO_LAST: return "ZERO_LAST";
        case OP_REJECT: return "REJECT";
        case OP_LONG: return "LONG";
        }
        return "?";
}

static void build_window();
static uint8_t *window_base();

struct Client {
        uint8_t *ctx = nullptr;
        bool started = false;   // a message is open (FIRST accepted, LAST not yet)
        bool in_flight = false;
        bool last_sent = false; // the in-flight/most recent accepted segment carried LAST
        bool complete = false;  // handed back COMPLETE and not restarted since
        bool ever_used = false;
        RefHash ref;
        uint64_t total = 0;
        uint64_t nseg = 0;      // segment counter (content derivation)
        uint64_t user_tag = 0;
        int blocks_bucket = 0;  // log2 bucket of the in-flight segment (state measure)
        bool rejected_pending = false; // was rejected at least once (C11 follow-up probe)
        bool contract_broken = false;  // the library accepted a misuse on this context: digest oracle off
        // long-stream mode (C15)
        uint64_t long_pos = 0;
        uint64_t long_goal = 0;
        Client() : ref(A_SHA1) {}
};

struct HashMgrSim : Sim {
        const char *name() const override { return "hashmgr"; }
        void process_init() override { init_algos(); }
        std::vector<std::string> real_components() const override
        {
                return { "ctx layer (*_ctx_*.c) of all 28 (algorithm, family) pairs", "lane schedulers (*_mb_mgr_submit/flush_*.asm, sha512_sb_mgr_*)",
                         "hash kernels (*_mb_x*, *_ni_x1/x2, *_opt_x1, sha512_sse4)", "isal_* and legacy wrappers (*_mb.c)" };
        }
        std::vector<std::string> stub_components() const override
        {
                return { "callers (logical clients, seeded scheduler)", "memory map (guard-paged arena)", "register file / dead stack at call entry",
                         "dispatch binding (slots set to the family under test; the resolver itself is exercised by C12)" };
        }

        // ------------------------------------------------------------ generation
        Plan generate(uint64_t seed, const std::string &focus, bool thorough, uint64_t) override
        {
                Rng g(seed, "plan");
                Plan p;
                int algo = (int) g.below(A_N);
                const AlgoDesc &d = g_algos[algo];
                int fam = (int) g.below(d.fams.size());
                int lanes = d.fams[fam].lanes;
                p.cfg["algo"] = algo;
                p.cfg["family"] = fam;
                int api = (int) g.below(10);
                p.cfg["api"] = api < 5 ? API_FAMILY : api < 9 ? API_ISAL : API_LEGACY;
                int K;
                switch (g.below(4)) {
                case 0: K = 1 + (int) g.below(3); break;
                case 1: K = std::max(1, lanes - 1 + (int) g.below(3)); break;
                case 2: K = lanes + 1 + (int) g.below(lanes + 2); break;
                default: K = 1 + (int) g.below(3 * lanes + 2); break;
                }
                p.cfg["clients"] = K;
                bool faults = focus == "C11" ? g.chance(9, 10) : g.chance(1, 4);
                p.cfg["faults"] = faults;
                p.cfg["size_regime"] = (int) g.below(100) < 2 ? 2 : (int) g.below(3) == 0 ? 1 : 0; // 0 small, 1 medium, 2 large(rare)
                p.cfg["mgr_place"] = (int) g.below(3);
                // swarm knob for segment lengths: 0 mixed, 1 every segment the same length (ties on the minimum lane length),
                // 2 whole blocks only, 3 tiny (< 1 block) only, 4 around the padding boundary only
                p.cfg["len_mode"] = g.chance(1, 2) ? 0 : (int64_t) (1 + g.below(4));
                p.cfg["len_fixed"] = (int64_t) g.below(1 << 16);
                // swarm knob: one client submits a single giant segment (2^30 .. 2^32-1 bytes of the periodic window) that stays in
                // flight for the rest of the run while the other clients keep the lanes busy; the manager is abandoned with the giant
                // unfinished (legal), so the run costs no more than an ordinary one. Only families with >= 4 lanes (the others hash a
                // job to the end inside submit).
                // swarm knob: some message segments lie inside the library's own static data (around the constant tables of the algorithm
                // under test): a caller may hash any readable memory, and code that uses one of its own addresses as a sentinel or scratch
                // must still hash it correctly
                p.cfg["libdata"] = g.chance(1, 8) ? 1 : 0;
                p.cfg["giant"] = (lanes >= 4 && K >= 2 && g.chance(lanes >= 16 ? 2 : 1, 12)) ? (int64_t) (1 + g.below(1 << 20)) : 0;
                p.cfg["giant_at"] = (int64_t) g.below(40);
                bool giant_full = false;
                if (p.cfg["giant"] && g.chance(3, 4)) {
                        p.cfg["clients"] = K = lanes + 1 + (int) g.below(lanes); // keep every lane occupied around the giant
                        giant_full = true;
                }
                int nops = 10 + (int) g.below(thorough ? 190 : 120);
                int w_submit = 60 + (int) g.below(30), w_flush = (int) g.below(15), w_drain = (int) g.below(5), w_restart = (int) g.below(6),
                    w_zero = (int) g.below(5), w_reject = faults ? 3 + (int) g.below(15) : 0;
                // several giants at once: a scripted fill of the (drained) manager in which the i-th submission is a giant (>= 2^31 bytes) iff bit i
                // of the mask is set - whole halves, interleaved groups of 4 or 8 lanes, single groups - and a short job otherwise; the short
                // traffic then continues with every lane occupied. Lane-length minima are computed group by group, and a group made of giants
                // only meets a group with short jobs only under such layouts.
                p.cfg["giant_mask"] = 0;
                if (giant_full && lanes >= 8 && g.chance(2, 3)) {
                        static const uint32_t masks[20] = { 0x0000ffffu, 0xffff0000u, 0x0000ffffu, 0xffff0000u, 0x0000ffffu, 0xffff0000u, 0x0f0f0f0fu,
                                                            0xf0f0f0f0u, 0x00ff00ffu, 0xff00ff00u, 0x00000f0fu, 0x0000f0f0u, 0x0f0f0000u, 0xf0f00000u,
                                                            0x000000ffu, 0x0000ff00u, 0x00ff0000u, 0xff000000u, 0x33333333u, 0x7fffffffu };
                        uint32_t m = g.chance(1, 6) ? (uint32_t) g.next() : masks[g.below(20)];
                        if (lanes == 16 && (m & 0xffffu) == 0xffffu)
                                m = g.chance(1, 2) ? 0x00ffu : 0xff00u; // halves of a 16-lane manager
                        if (lanes == 8 && (m & 0xffu) == 0xffu)
                                m = g.chance(1, 2) ? 0x0fu : 0xf0u;
                        uint32_t lm = lanes < 32 ? (1u << lanes) - 1 : 0xffffffffu;
                        m &= lm;
                        if (m == lm)
                                m &= ~(1u << (lanes / 2)); // at least one lane must hold a short job, or the first full round hashes a giant
                        if (m == 0)
                                m = 1;
                        p.cfg["giant_mask"] = (int64_t) m;
                        p.cfg["clients"] = K = __builtin_popcount(m) + lanes + 2 + (int) g.below(lanes);
                }
                if (giant_full) {
                        // long enough to fill the lanes and then schedule many rounds with all of them occupied; (almost) no flushes
                        nops += 4 * lanes;
                        w_drain = 0;
                        w_flush = (int) g.below(3);
                        p.cfg["giant_at"] = (int64_t) g.below((uint64_t) (2 * lanes));
                }
                int tot = w_submit + w_flush + w_drain + w_restart + w_zero + w_reject;
                for (int i = 0; i < nops; i++) {
                        Op o;
                        int x = (int) g.below(tot);
                        if (x < w_submit)
                                o.kind = OP_SUBMIT;
                        else if ((x -= w_submit) < w_flush)
                                o.kind = OP_FLUSH;
                        else if ((x -= w_flush) < w_drain)
                                o.kind = OP_DRAIN;
                        else if ((x -= w_drain) < w_restart)
                                o.kind = OP_RESTART;
                        else if ((x -= w_restart) < w_zero)
                                o.kind = OP_ZERO_LAST;
                        else
                                o.kind = OP_REJECT;
                        o.a = (int64_t) g.below(1 << 16);  // client selector
                        o.b = (int64_t) g.below(1 << 16);  // length class / reject kind selector
                        o.c = (int64_t) g.below(1 << 16);  // flag choice / length within class
                        o.d = (int64_t) g.below(1 << 16);  // placement & alignment
                        p.ops.push_back(o);
                }
                return p;
        }

        Plan generate_long(uint64_t seed, bool thorough, uint64_t run_index, bool giant_alone = false); // C15, defined below

        std::string render(const Plan &p) const override
        {
                const AlgoDesc &d = g_algos[p.get("algo")];
                std::string s = strfmt("%s/%s api=%s clients=%lld faults=%lld ops=[", d.name, d.fams[p.get("family")].name.c_str(),
                                       p.get("api") == API_FAMILY ? "family" : p.get("api") == API_ISAL ? "isal" : "legacy",
                                       (long long) p.get("clients"), (long long) p.get("faults"));
                for (size_t i = 0; i < p.ops.size() && i < 24; i++)
                        s += strfmt("%s%s(%lld,%lld,%lld)", i ? " " : "", opname(p.ops[i].kind), (long long) p.ops[i].a, (long long) p.ops[i].b,
                                    (long long) p.ops[i].c);
                if (p.ops.size() > 24)
                        s += strfmt(" ... %zu ops", p.ops.size());
                return s + "]";
        }

        // ------------------------------------------------------------ execution state
        struct St {
                const AlgoDesc *d;
                const Family *f;
                int api;
                Env *env;
                RunResult *r;
                uint8_t *mgr;
                uint64_t *ctx_out; // isal out slot
                std::vector<Client> cl;
                int inflight = 0;
                uint64_t plan_seed;
                int size_regime;
                int len_mode = 0;
                int64_t len_fixed = 0;
                bool jump_run = false;    // C15 counter-jump workload
                uint64_t jump_J = 0;      // the jump applied so far (0 before it)
                bool libdata = false;     // some segments are taken from the library's static data
                int64_t giant = 0;        // != 0: clients 0 .. ngiant-1 are giant clients
                int ngiant = 0, giants_inflight = 0, giants_used = 0;
                uint32_t giant_mask = 0;
                bool poisoned_api = false; // an earlier rejection happened (C11 "later valid call" clause is live)
                std::string tag;           // "sha256/avx2/isal"
                int last_kind = 0;
        };

        static uint32_t &u32(uint8_t *ctx, size_t off) { return *(uint32_t *) (ctx + off); }
        static uint64_t &u64(uint8_t *ctx, size_t off) { return *(uint64_t *) (ctx + off); }

        int client_of(St &s, uint64_t ptr)
        {
                for (size_t i = 0; i < s.cl.size(); i++)
                        if ((uint64_t) (uintptr_t) s.cl[i].ctx == ptr)
                                return (int) i;
                return -1;
        }

        void state_probe(St &s, int kind)
        {
                // distinct-state measure
                std::vector<int> buckets;
                int idle = 0, comp = 0;
                for (auto &c : s.cl) {
                        if (c.in_flight)
                                buckets.push_back(c.blocks_bucket);
                        else if (c.complete)
                                comp++;
                        else if (c.started)
                                idle++;
                }
                std::sort(buckets.begin(), buckets.end());
                uint64_t h = mix64((uint64_t) s.d->a * 16 + (uint64_t) (s.f - &s.d->fams[0]), (uint64_t) s.inflight);
                for (int b : buckets)
                        h = mix64(h, (uint64_t) b);
                h = mix64(h, (uint64_t) idle * 64 + comp);
                h = mix64(h, (uint64_t) kind);
                if (s.inflight > 0)
                        s.r->cov.state(h);
                s.last_kind = kind;
        }

        // call wrappers ------------------------------------------------
        // returns returned-context pointer; *rc = API return code (0 for non-isal levels)
        uint64_t do_submit(St &s, uint8_t *ctx, const uint8_t *buf, uint32_t len, uint32_t flags, int *rc)
        {
                Env &e = *s.env;
                *rc = 0;
                if (s.api == API_FAMILY)
                        return e.call((std::string("_") + s.d->name + "_ctx_mgr_submit_" + s.f->name).c_str(), s.f->submit,
                                      { U(s.mgr), U(ctx), U(buf), len, flags });
                if (s.api == API_LEGACY)
                        return e.call((std::string(s.d->name) + "_ctx_mgr_submit").c_str(), s.d->leg_submit, { U(s.mgr), U(ctx), U(buf), len, flags });
                *s.ctx_out = 0xdeadbeefdeadbeefULL ^ e.hidden.next();
                uint64_t before = *s.ctx_out;
                uint64_t ret = e.call((std::string("isal_") + s.d->name + "_ctx_mgr_submit").c_str(), s.d->isal_submit,
                                      { U(s.mgr), U(ctx), U(s.ctx_out), U(buf), len, flags });
                *rc = (int) (uint32_t) ret;
                (void) before;
                return *s.ctx_out;
        }
        uint64_t do_flush(St &s, int *rc)
        {
                Env &e = *s.env;
                *rc = 0;
                if (s.api == API_FAMILY)
                        return e.call((std::string("_") + s.d->name + "_ctx_mgr_flush_" + s.f->name).c_str(), s.f->flush, { U(s.mgr) });
                if (s.api == API_LEGACY)
                        return e.call((std::string(s.d->name) + "_ctx_mgr_flush").c_str(), s.d->leg_flush, { U(s.mgr) });
                *s.ctx_out = 0xdeadbeefdeadbeefULL ^ e.hidden.next();
                uint64_t ret = e.call((std::string("isal_") + s.d->name + "_ctx_mgr_flush").c_str(), s.d->isal_flush, { U(s.mgr), U(s.ctx_out) });
                *rc = (int) (uint32_t) ret;
                return *s.ctx_out;
        }

        // a context came back from the manager (or straight from submit): check C06 items 1,2 and C01/C15
        void handed_back(St &s, int ci, const char *via, bool from_inflight)
        {
                Env &e = *s.env;
                Client &c = s.cl[ci];
                const AlgoDesc &d = *s.d;
                if (from_inflight) {
                        if (!c.in_flight)
                                e.violation("C06", "duplicate-return", "C06/duplicate-return/" + s.tag,
                                            strfmt("%s: %s handed back client %d which is not in flight (second return or never accepted)", s.tag.c_str(),
                                                   via, ci),
                                            false);
                        c.in_flight = false;
                        s.inflight--;
                        if (ci < s.ngiant && s.giants_inflight > 0) {
                                s.giants_inflight--; // a giant segment came back (it was hashed to its end, or the manager lost track of it)
                                c.contract_broken = true; // no reference digest is kept for giants
                        }
                }
                uint32_t st = u32(c.ctx, d.off_status);
                e.obs(0x100 + ci, st);
                if (st & ISAL_HASH_CTX_STS_PROCESSING)
                        e.violation("C06", "returned-processing", "C06/returned-processing/" + s.tag,
                                    strfmt("%s: client %d handed back by %s while still marked PROCESSING (status 0x%x)", s.tag.c_str(), ci, via, st),
                                    false);
                uint32_t want = c.last_sent ? (uint32_t) ISAL_HASH_CTX_STS_COMPLETE : (uint32_t) ISAL_HASH_CTX_STS_IDLE;
                if (c.contract_broken) {
                        // which segment the manager believes to be current is undefined after an accepted misuse: only conservation is judged
                        if (st == ISAL_HASH_CTX_STS_COMPLETE) {
                                c.complete = true;
                                c.started = false;
                        }
                        return;
                }
                if (st != want)
                        e.violation("C06", "wrong-status", "C06/wrong-status/" + s.tag,
                                    strfmt("%s: client %d handed back by %s with status 0x%x, expected 0x%x (%s)", s.tag.c_str(), ci, via, st, want,
                                           c.last_sent ? "LAST was accepted" : "no LAST yet"),
                                    false);
                // user_data untouched
                if (u64(c.ctx, d.off_user) != c.user_tag)
                        e.violation("C06", "user-data", "C06/user-data/" + s.tag, strfmt("%s: user_data of client %d changed", s.tag.c_str(), ci));
                // running total (C15 clause, also C01)
                uint64_t tl = u64(c.ctx, d.off_total);
                e.obs(0x200 + ci, tl);
                if (tl != c.total && s.jump_run && tl + s.jump_J == c.total) {
                        // the library reports exactly the total without the jump: it did not take ctx->total_length as its only record of the
                        // running total, the counter jump is not a faithful model of this implementation and the run says nothing. (Any
                        // other mismatch is a wrong total and is judged below.)
                        s.r->cov.hit("counter_jump_not_honoured_run_not_judged");
                        e.tainted = true;
                        throw RunAbort();
                }
                if (tl != c.total)
                        e.violation("C15", "total-length", "C15/total-length/" + s.tag,
                                    strfmt("%s: client %d reports total_length %llu, sum of accepted segments is %llu", s.tag.c_str(), ci,
                                           (unsigned long long) tl, (unsigned long long) c.total));
                if (c.last_sent) {
                        c.complete = true;
                        c.started = false;
                        std::vector<uint8_t> want_d = ctx_digest_image(d.a, c.ref.digest_bytes());
                        e.obs_bytes(0x300 + ci, c.ctx + d.off_digest, d.digest_bytes);
                        if (memcmp(c.ctx + d.off_digest, want_d.data(), d.digest_bytes) != 0) {
                                if (c.rejected_pending)
                                        e.violation("C11", "digest-after-reject", "C11/digest-after-reject/" + s.tag,
                                                    strfmt("%s: client %d was the target of a rejected submit earlier in this message and now completes with a wrong digest",
                                                           s.tag.c_str(), ci));
                                const char *prop = c.total >= (1ULL << 29) ? "C15" : "C01";
                                e.violation(prop, "digest", std::string(prop) + "/digest/" + s.tag,
                                            strfmt("%s: client %d completed (%s) with digest %s, reference %s over %llu bytes in %llu segments",
                                                   s.tag.c_str(), ci, via, hex(c.ctx + d.off_digest, d.digest_bytes).c_str(),
                                                   hex(want_d.data(), want_d.size()).c_str(), (unsigned long long) c.total, (unsigned long long) c.nseg));
                        }
                        s.r->cov.hit("job_completed_and_verified");
                        if ((c.total % d.block) + 1 + d.lenfield > d.block)
                                s.r->cov.hit("probe_two_block_padding");
                        if (c.rejected_pending) {
                                s.r->cov.hit("probe_rejected_ctx_later_completed_ok");
                                c.rejected_pending = false;
                        }
                }
        }

        void post_call_invariants(St &s, const char *what)
        {
                Env &e = *s.env;
                const AlgoDesc &d = *s.d;
                if (s.inflight > s.f->lanes)
                        e.violation("C06", "over-capacity", "C06/over-capacity/" + s.tag,
                                    strfmt("%s: manager holds %d contexts after %s but has %d lanes", s.tag.c_str(), s.inflight, what, s.f->lanes), false);
                for (size_t i = 0; i < s.cl.size(); i++) {
                        Client &c = s.cl[i];
                        if (c.in_flight && !(u32(c.ctx, d.off_status) & ISAL_HASH_CTX_STS_PROCESSING))
                                e.violation("C06", "inflight-not-processing", "C06/inflight-not-processing/" + s.tag,
                                            strfmt("%s: client %zu is held by the manager but not marked PROCESSING after %s", s.tag.c_str(), i, what), false);
                        if (c.ctx && u64(c.ctx, d.off_user) != c.user_tag)
                                e.violation("C06", "user-data", "C06/user-data/" + s.tag,
                                            strfmt("%s: user_data of client %zu changed after %s", s.tag.c_str(), i, what));
                }
        }

        // process the pointer returned by submit/flush
        void process_return(St &s, uint64_t ret, int submitted /* client index or -1 */, const char *via)
        {
                Env &e = *s.env;
                if (ret == 0) {
                        e.obs(0x10, 0xffff);
                        return;
                }
                int ci = client_of(s, ret);
                e.obs(0x10, (uint64_t) ci);
                if (ci < 0) {
                        e.violation("C06", "foreign-pointer", "C06/foreign-pointer/" + s.tag,
                                    strfmt("%s: %s returned a pointer that is no submitted context", s.tag.c_str(), via), false);
                        return;
                }
                if (ci == submitted)
                        return; // handled by the caller (came straight back)
                handed_back(s, ci, via, true);
        }

        // ------------------------------------------------------------ ops
        std::vector<int> eligible(St &s, std::function<bool(const Client &)> pred)
        {
                std::vector<int> v;
                for (size_t i = (size_t) s.ngiant; i < s.cl.size(); i++) // the first clients are reserved for the giant segments
                        if (pred(s.cl[i]))
                                v.push_back((int) i);
                return v;
        }

        uint32_t seg_len(St &s, int64_t cls, int64_t sub_)
        {
                uint64_t sub = (uint64_t) sub_ & 0xffffffffull;
                {
                        uint32_t Bm = (uint32_t) s.d->block;
                        switch (s.len_mode) {
                        case 1: cls = s.len_fixed; sub = (uint64_t) s.len_fixed >> 4; break;          // all segments alike
                        case 2: return Bm * (uint32_t) (1 + sub % 12);                                 // whole blocks
                        case 3: return (uint32_t) (sub % Bm);                                          // less than a block
                        case 4: return Bm * (uint32_t) (sub % 3) + Bm - (uint32_t) s.d->lenfield - 2 + (uint32_t) ((sub >> 2) % 5); // padding boundary
                        default: break;
                        }
                }
                uint32_t B = (uint32_t) s.d->block;
                uint32_t maxlen = s.size_regime == 2 ? (1u << 20) : s.size_regime == 1 ? 8192 : 1024;
                switch (cls % 12) {
                case 0: return 0;
                case 1: return 1;
                case 2: return 1 + (uint32_t) (sub % (B - 1));           // < block
                case 3: return B - 1;
                case 4: return B;
                case 5: return B + 1;
                case 6: return 2 * B - 1 + (uint32_t) (sub % 3);          // 2B-1, 2B, 2B+1
                case 7: return B * (1 + (uint32_t) (sub % 8));            // few whole blocks
                case 8: return B * (1 + (uint32_t) (sub % 8)) + 1 + (uint32_t) ((sub >> 3) % (B - 1)); // blocks + tail
                case 9: return (uint32_t) (sub % (maxlen + 1));
                case 10: return B - (uint32_t) s.d->lenfield - 1 + (uint32_t) (sub % 3); // around the padding boundary
                default: return (uint32_t) ((sub * 2654435761ull) % (maxlen + 1));
                }
        }

        // a segment inside the library's static data: a block boundary of the job falls on one of the data symbols that belong to the
        // algorithm's own source files; returns false when that does not fit into the section
        bool libdata_pick(St &s, Client &c, const Op &o, uint8_t **buf, uint32_t *len)
        {
                static std::map<int, std::vector<uintptr_t>> anchors;
                static uintptr_t lo = 0, hi = 0;
                if (!lo && !section_range(".isal_rw", &lo, &hi))
                        return false;
                auto it = anchors.find((int) s.d->a);
                if (it == anchors.end()) {
                        std::vector<uintptr_t> v;
                        for (auto &kv : symbols_in_of_file(lo, hi, s.d->name))
                                if (kv.second % 16 == 0 && kv.first.find("_dispatched") == std::string::npos && (v.empty() || v.back() != kv.second))
                                        v.push_back(kv.second);
                        it = anchors.emplace((int) s.d->a, v).first;
                }
                if (it->second.empty())
                        return false;
                const uint64_t B = s.d->block;
                uintptr_t anchor = it->second[(size_t) (o.c >> 4) % it->second.size()];
                uint64_t pend = c.started ? c.total % B : 0;
                uint64_t lead = (B - pend) % B + B * (uint64_t) ((o.c >> 10) % 3);
                uint64_t n = lead + B * (uint64_t) (1 + (o.c >> 12) % 3) + (uint64_t) (((o.c >> 14) & 1) ? (o.c >> 5) % B : 0);
                if (anchor < lo + lead || anchor - lead + n > hi)
                        return false;
                // the segment must not cover one of the mutable words of the section (binding slots, self-test verdict): their values
                // depend on what the process did before, and a message must be a function of the plan alone
                static std::vector<uintptr_t> mut;
                if (mut.empty()) {
                        for (auto &nm : symbols_matching("", "_dispatched"))
                                mut.push_back((uintptr_t) libsym(nm.c_str()));
                        if (void *st = libsym("self_test_status", false))
                                mut.push_back((uintptr_t) st);
                        std::sort(mut.begin(), mut.end());
                }
                {
                        uintptr_t a0 = anchor - lead, a1 = a0 + n;
                        auto itm = std::lower_bound(mut.begin(), mut.end(), a0 >= 8 ? a0 - 7 : 0);
                        if (itm != mut.end() && *itm < a1)
                                return false;
                }
                *buf = (uint8_t *) (anchor - lead);
                *len = (uint32_t) n;
                return true;
        }

        uint8_t *make_buffer(St &s, Client &c, int ci, uint32_t len, int64_t d)
        {
                Env &e = *s.env;
                Place pl = (Place) (d % 3);
                size_t off = (size_t) ((d >> 2) % 64);
                uint8_t *buf = e.mem.alloc(len, 1, pl, nullptr, "segment buffer", R_INPUT, off);
                if (len) {
                        Rng content(mix64(s.plan_seed, ((uint64_t) ci << 32) | c.nseg), "content");
                        content.fill(buf, len);
                }
                e.mem.snapshot(buf);
                return buf;
        }

        // Before an idle stream is abandoned and its context restarted with FIRST, one more UPDATE segment whose *content* comes from
        // the hidden stream is hashed into it (same length in both executions of a C20 pair, so scheduling is unaffected): the context's
        // hash state, partial block and counters before FIRST then differ between the two executions, as C20 quantifies
        // ("context memory before FIRST/init"). All calls are legal API use.
        void scramble_abandoned_stream(St &s, int ci, const Op &o)
        {
                Env &e = *s.env;
                Client &c = s.cl[ci];
                uint32_t len = 1 + (uint32_t) ((o.c >> 3) % (3 * s.d->block));
                uint8_t *buf = e.mem.alloc(len, 1, (Place) ((o.d >> 4) % 3), &e.hidden, "segment of a stream about to be abandoned", R_INPUT, (size_t) ((o.d >> 6) % 64));
                e.mem.snapshot(buf);
                c.ref.update(buf, len); // (the stream is abandoned right afterwards; kept exact in case it is not)
                c.total += len;
                c.nseg++;
                c.last_sent = false;
                s.r->cov.hit("fault_abandoned_stream_with_hidden_content_before_restart");
                e.ev(mix64(OP_SUBMIT, 0xaba0000ull ^ ((uint64_t) ci << 40) ^ len));
                int rc;
                uint64_t ret = do_submit(s, c.ctx, buf, len, ISAL_HASH_UPDATE, &rc);
                e.obs(0x11, (uint64_t) rc);
                if (ret == (uint64_t) (uintptr_t) c.ctx) {
                        e.obs(0x10, (uint64_t) ci);
                        handed_back(s, ci, "its own submit", false);
                } else {
                        c.in_flight = true;
                        s.inflight++;
                        process_return(s, ret, ci, "submit");
                }
                post_call_invariants(s, "submit");
                for (int guard = 0; c.in_flight && guard < 64 && !(s.giants_inflight > 0 && s.inflight <= s.giants_inflight); guard++)
                        op_flush(s, false);
        }

        void op_submit(St &s, const Op &o, bool force_first, bool zero_last)
        {
                Env &e = *s.env;
                const AlgoDesc &d = *s.d;
                std::vector<int> el;
                if (zero_last)
                        el = eligible(s, [](const Client &c) { return !c.in_flight && c.started; });
                else if (force_first)
                        el = eligible(s, [](const Client &c) { return !c.in_flight && c.started; }); // restart an idle stream
                else
                        el = eligible(s, [](const Client &c) { return !c.in_flight; });
                if (el.empty())
                        return;
                int ci = el[o.a % el.size()];
                if (force_first && s.cl[ci].started && !s.cl[ci].in_flight && (o.d & 0x300) != 0)
                        scramble_abandoned_stream(s, ci, o);
                Client &c = s.cl[ci];
                if (c.in_flight)
                        return; // (only after a failed scramble: the manager did not give the context back)
                uint32_t flags;
                bool begin = !c.started || force_first;
                if (zero_last)
                        flags = ISAL_HASH_LAST;
                else if (begin)
                        flags = (o.c % 4 == 0) ? ISAL_HASH_ENTIRE : ISAL_HASH_FIRST;
                else
                        flags = (o.c % 3 == 0) ? ISAL_HASH_LAST : ISAL_HASH_UPDATE;
                uint32_t len = zero_last ? 0 : seg_len(s, o.b, o.c >> 2);
                uint8_t *buf;
                if (zero_last) {
                        // dangling pointer: the first byte of an inaccessible page
                        uint8_t *z = e.mem.alloc(0, 1, END_FLUSH, nullptr, "zero-length LAST (dangling)", R_INPUT);
                        buf = z;
                        s.r->cov.hit("fault_zero_length_last_dangling_ptr");
                } else if (s.libdata && ((o.d >> 8) & 3) == 1 && libdata_pick(s, c, o, &buf, &len)) {
                        s.r->cov.hit("probe_segment_inside_library_static_data");
                } else
                        buf = make_buffer(s, c, ci, len, o.d);
                if (begin) {
                        if (c.started)
                                s.r->cov.hit(s.inflight ? "fault_restart_idle_stream_while_others_in_flight" : "fault_restart_idle_stream");
                        else if (c.complete)
                                s.r->cov.hit("probe_context_reuse_after_complete");
                        c.ref.reset();
                        c.total = 0;
                        c.started = true;
                        c.complete = false;
                        c.contract_broken = false;
                }
                c.ref.update(buf, len);
                c.total += len;
                c.nseg++;
                c.last_sent = (flags & ISAL_HASH_LAST) != 0;
                c.ever_used = true;
                {
                        uint32_t blocks = len / (uint32_t) d.block;
                        int b = 0;
                        while (blocks) {
                                b++;
                                blocks >>= 1;
                        }
                        c.blocks_bucket = b;
                }
                s.r->cov.hit(strfmt("probe_lane_occupancy_at_submit_%d", std::min(s.inflight, 32)));
                e.ev(mix64(OP_SUBMIT, ((uint64_t) ci << 40) | ((uint64_t) flags << 32) | len));
                int rc;
                uint64_t ret = do_submit(s, c.ctx, buf, len, flags, &rc);
                e.obs(0x11, (uint64_t) rc);
                if (s.api == API_ISAL && rc != 0) {
                        // a valid call reported as failed
                        e.violation("C11", "valid-call-failed", "C11/valid-call-failed/" + std::string(d.name) + "/" + s.f->name,
                                    strfmt("%s: valid submit (client %d, flags %u, len %u) returned error %d%s", s.tag.c_str(), ci, flags, len, rc,
                                           s.poisoned_api ? " after an earlier rejected submit" : ""));
                }
                if (ret == (uint64_t) (uintptr_t) c.ctx) {
                        e.obs(0x10, (uint64_t) ci);
                        handed_back(s, ci, "its own submit", false);
                } else {
                        c.in_flight = true;
                        s.inflight++;
                        if (ret)
                                s.r->cov.hit("probe_submit_returned_other_context");
                        process_return(s, ret, ci, "submit");
                }
                e.check_buf(c.ctx, "submit");
                post_call_invariants(s, "submit");
                state_probe(s, flags + 1);
        }

        // the giant client's only submission: one FIRST segment of 2^30 .. 2^32-1 bytes taken from the periodic window
        void op_giant(St &s, int gi = 0)
        {
                Env &e = *s.env;
                build_window();
                Client &c = s.cl[gi];
                uint64_t g = (uint64_t) s.giant + (uint64_t) gi * 13;
                if (s.ngiant > 1)
                        g = (g & ~7ull) | (2 + g % 5); // several giants: all of them >= 2^31 - 64 bytes (classes 2..6)
                s.giants_used++;
                static const uint64_t cls[8] = { 1ull << 30, (1ull << 30) - 64, 1ull << 31, (1ull << 31) - 64, (1ull << 31) + 64, (1ull << 32) - 64,
                                                 (1ull << 32) - 1, 0 };
                uint64_t len = cls[g % 8];
                if (!len)
                        len = (1ull << 30) + (mix64(s.plan_seed, 0x91a27) % ((3ull << 30) - 1));
                if (s.ngiant > 1 && len < (1ull << 31))
                        len = (1ull << 31) + 64 * (uint64_t) gi;
                const uint8_t *buf = window_base() + (g >> 3) % 4096;
                c.total = len;
                c.started = true;
                c.complete = false;
                c.last_sent = false;
                c.ever_used = true;
                c.nseg++;
                c.blocks_bucket = 30;
                s.r->cov.hit(strfmt("probe_giant_segment_in_flight_2^%d", len >= (1ull << 32) - 64 ? 32 : len >= (1ull << 31) - 64 ? 31 : 30));
                s.r->cov.hit(strfmt("probe_giant_submitted_with_%d_in_flight", std::min(s.inflight, 32)));
                e.ev(mix64(OP_SUBMIT, 0x61a27ull ^ len));
                int rc;
                uint64_t ret = do_submit(s, c.ctx, buf, (uint32_t) len, ISAL_HASH_FIRST, &rc);
                e.obs(0x11, (uint64_t) rc);
                if (s.api == API_ISAL && rc != 0)
                        e.violation("C11", "valid-call-failed", "C11/valid-call-failed/" + std::string(s.d->name) + "/" + s.f->name,
                                    strfmt("%s: valid submit of a %llu-byte segment returned error %d", s.tag.c_str(), (unsigned long long) len, rc));
                c.in_flight = true;
                s.inflight++;
                s.giants_inflight++;
                if (ret == (uint64_t) (uintptr_t) c.ctx) {
                        // would mean the whole segment was hashed inside submit: not expected of a family with >= 4 lanes, but legal
                        e.obs(0x10, (uint64_t) gi);
                        c.in_flight = false;
                        s.inflight--;
                        s.giants_inflight--;
                        c.contract_broken = true; // no reference digest for it
                        handed_back(s, gi, "its own submit", false);
                } else
                        process_return(s, ret, gi, "submit");
                post_call_invariants(s, "submit");
                state_probe(s, 9);
        }

        void op_flush(St &s, bool drain)
        {
                Env &e = *s.env;
                int guard = 0;
                // with the giant segment in flight a flush is only issued while some other job is in flight too (that one is the
                // minimum and comes back); flushing the giant alone would hash all of it
                if (s.giants_inflight > 0 && s.inflight <= s.giants_inflight)
                        return;
                do {
                        s.r->cov.hit(strfmt("probe_lane_occupancy_at_flush_%d", std::min(s.inflight, 32)));
                        e.ev(mix64(OP_FLUSH, (uint64_t) s.inflight));
                        int before = s.inflight;
                        int rc;
                        uint64_t ret = do_flush(s, &rc);
                        e.obs(0x12, (uint64_t) rc);
                        if (s.api == API_ISAL && rc != 0)
                                e.violation("C11", "valid-call-failed", "C11/valid-call-failed/" + std::string(s.d->name) + "/flush",
                                            strfmt("%s: flush returned error %d", s.tag.c_str(), rc));
                        if (ret == 0 && before > 0)
                                e.violation("C06", "flush-null-while-held", "C06/flush-null-while-held/" + s.tag,
                                            strfmt("%s: flush returned no context while the manager holds %d", s.tag.c_str(), before), false);
                        if (ret != 0 && before == 0)
                                e.violation("C06", "flush-nonnull-while-empty", "C06/flush-nonnull-while-empty/" + s.tag,
                                            strfmt("%s: flush returned a context while the manager holds none", s.tag.c_str()), false);
                        process_return(s, ret, -1, "flush");
                        post_call_invariants(s, "flush");
                        state_probe(s, 8);
                        if (ret == 0)
                                break;
                        if (s.giants_inflight > 0 && s.inflight <= s.giants_inflight)
                                break;
                        if (++guard > 200) {
                                e.violation("C06", "drain-not-terminating", "C06/drain-not-terminating/" + s.tag,
                                            strfmt("%s: repeated flush did not drain the manager in 200 calls", s.tag.c_str()), false);
                                break;
                        }
                } while (drain);
                if (drain)
                        s.r->cov.hit("probe_drain_completed");
        }

        std::vector<uint8_t> api_image(St &s, const uint8_t *ctx)
        {
                // API-defined part of a context, without the error field
                const AlgoDesc &d = *s.d;
                std::vector<uint8_t> v;
                auto add = [&](const void *p, size_t n) { v.insert(v.end(), (const uint8_t *) p, (const uint8_t *) p + n); };
                add(ctx + d.off_digest, d.digest_bytes);
                add(ctx + d.off_status, 4);
                add(ctx + d.off_total, 8);
                uint32_t pl = *(const uint32_t *) (ctx + d.off_partial_len);
                add(ctx + d.off_partial_len, 4);
                if (pl <= 2 * d.block)
                        add(ctx + d.off_partial, pl);
                add(ctx + d.off_user, 8);
                return v;
        }

        void op_reject(St &s, const Op &o)
        {
                Env &e = *s.env;
                const AlgoDesc &d = *s.d;
                int kind = (int) (o.b % 3);
                std::vector<int> el;
                uint32_t flags;
                int want_err, want_rc;
                if (kind == RJ_BAD_FLAGS) {
                        el = eligible(s, [](const Client &) { return true; });
                        static const uint32_t bad[] = { 4, 8, 0x10, 0x100, 0x80000000u, 5, 6, 7, 0xffffffffu, 0x40000002u };
                        flags = bad[o.c % 10];
                        if (o.c % 11 == 10)
                                flags = ((uint32_t) (o.c * 2654435761u)) | 4;
                        want_err = ISAL_HASH_CTX_ERROR_INVALID_FLAGS;
                        want_rc = ISAL_CRYPTO_ERR_INVALID_FLAGS;
                } else if (kind == RJ_PROCESSING) {
                        el = eligible(s, [](const Client &c) { return c.in_flight; });
                        flags = (uint32_t) (o.c % 4);
                        want_err = ISAL_HASH_CTX_ERROR_ALREADY_PROCESSING;
                        want_rc = ISAL_CRYPTO_ERR_ALREADY_PROCESSING;
                } else {
                        el = eligible(s, [](const Client &c) { return !c.in_flight && !c.started; }); // complete or fresh (ctx_init => COMPLETE)
                        flags = (o.c & 1) ? ISAL_HASH_UPDATE : ISAL_HASH_LAST;
                        want_err = ISAL_HASH_CTX_ERROR_ALREADY_COMPLETED;
                        want_rc = ISAL_CRYPTO_ERR_ALREADY_COMPLETED;
                }
                if (el.empty())
                        return; // degrades to a no-op
                int ci = el[o.a % el.size()];
                Client &c = s.cl[ci];
                uint32_t len = seg_len(s, o.c >> 4, o.d);
                if (len > 4096)
                        len = 4096;
                uint8_t *buf = e.mem.alloc(len, 1, (Place) (o.d % 3), nullptr, "rejected segment buffer", R_INPUT, (size_t) ((o.d >> 2) % 64));
                {
                        Rng content(mix64(s.plan_seed, 0xbad0000 + (uint64_t) e.op_index), "content");
                        content.fill(buf, len);
                }
                e.mem.snapshot(buf);
                // images before
                std::vector<uint8_t> mgr_before(s.mgr, s.mgr + d.mgr_size);
                std::vector<std::vector<uint8_t>> others;
                for (size_t i = 0; i < s.cl.size(); i++)
                        others.emplace_back(s.cl[i].ctx, s.cl[i].ctx + d.ctx_size);
                std::vector<uint8_t> own_before = api_image(s, c.ctx);
                static const char *kn[3] = { "bad_flags", "already_processing", "already_completed" };
                s.r->cov.hit(strfmt("fault_reject_%s", kn[kind]));
                s.r->cov.hit(s.inflight == 0 ? "probe_reject_with_0_in_flight" : s.inflight >= s.f->lanes - 1 ? "probe_reject_with_lanes_nearly_full" : "probe_reject_with_some_in_flight");
                s.r->cov.state(mix64(mix64((uint64_t) d.a * 16 + (uint64_t) (s.f - &d.fams[0]), (uint64_t) kind), mix64((uint64_t) s.inflight, (uint64_t) s.api) ^ 0xC11));
                e.ev(mix64(OP_REJECT, ((uint64_t) ci << 40) | ((uint64_t) kind << 32) | flags));
                int rc;
                uint64_t ret = do_submit(s, c.ctx, buf, len, flags, &rc);
                e.obs(0x13, (uint64_t) rc);
                e.obs(0x14, ret == (uint64_t) (uintptr_t) c.ctx);
                std::string site = std::string(d.name) + "/" + s.f->name + "/" + kn[kind];
                if (ret != (uint64_t) (uintptr_t) c.ctx) {
                        // the library took a call it must refuse. C11 reports that; for the other properties the call is now an accepted
                        // submission the caller never intended: the conservation model (C06) keeps running on what the manager really does,
                        // the digest oracle (C01) is switched off for this client (the API contract was not respected).
                        e.violation("C11", "not-handed-back", "C11/not-handed-back/" + site,
                                    strfmt("%s: rejected submit (%s) on client %d was not handed straight back", s.tag.c_str(), kn[kind], ci));
                        c.contract_broken = true;
                        s.r->cov.hit("probe_misuse_accepted_by_library");
                        if (!c.in_flight) {
                                c.in_flight = true;
                                s.inflight++;
                        }
                        process_return(s, ret, ci, "submit");
                        post_call_invariants(s, "misuse accepted as a submit");
                        return;
                }
                int err = (int) u32(c.ctx, d.off_error);
                if (err != want_err)
                        e.violation("C11", "wrong-error", "C11/wrong-error/" + site,
                                    strfmt("%s: rejected submit (%s, flags 0x%x) set error %d, expected %d", s.tag.c_str(), kn[kind], flags, err, want_err));
                if (s.api == API_ISAL && rc != want_rc)
                        e.violation("C11", "wrong-return-code", "C11/wrong-return-code/" + site,
                                    strfmt("%s: rejected submit (%s) returned %d, expected %d", s.tag.c_str(), kn[kind], rc, want_rc));
                if (memcmp(mgr_before.data(), s.mgr, d.mgr_size) != 0)
                        e.violation("C11", "manager-changed", "C11/manager-changed/" + site,
                                    strfmt("%s: rejected submit (%s) changed the manager", s.tag.c_str(), kn[kind]), false);
                for (size_t i = 0; i < s.cl.size(); i++) {
                        if ((int) i == ci)
                                continue;
                        if (memcmp(others[i].data(), s.cl[i].ctx, d.ctx_size) != 0)
                                e.violation("C11", "other-context-changed", "C11/other-context-changed/" + site,
                                            strfmt("%s: rejected submit (%s) on client %d changed client %zu", s.tag.c_str(), kn[kind], ci, i), false);
                }
                if (own_before != api_image(s, c.ctx))
                        e.violation("C11", "own-state-changed", "C11/own-state-changed/" + site,
                                    strfmt("%s: rejected submit (%s) changed the hash state/status of the rejected context (client %d)", s.tag.c_str(),
                                           kn[kind], ci),
                                    false);
                c.rejected_pending = true;
                s.poisoned_api = true;
                post_call_invariants(s, "rejected submit");
        }

        // ------------------------------------------------------------ run
        void execute(const Plan &p, Env &e, RunResult &r) override
        {
                if (p.get("mode") == 1) {
                        execute_long(p, e, r);
                        return;
                }
                if (p.get("mode") == 3) {
                        execute_endure(p, e, r);
                        return;
                }
                if (p.get("mode") == 4) {
                        execute_jump(p, e, r);
                        return;
                }
                if (p.get("mode") == 5) {
                        execute_edge(p, e, r);
                        return;
                }
                St s;
                s.d = &g_algos[p.get("algo") % A_N];
                s.f = &s.d->fams[p.get("family") % s.d->fams.size()];
                s.api = g_force_family_api ? (int) API_FAMILY : (int) p.get("api");
                s.env = &e;
                s.r = &r;
                s.plan_seed = p.seed;
                s.size_regime = (int) p.get("size_regime");
                s.len_mode = (int) p.get("len_mode");
                s.len_fixed = p.get("len_fixed");
                s.giant = p.get("giant");
                s.giant_mask = (uint32_t) p.get("giant_mask");
                s.libdata = p.get("libdata") != 0;
                s.tag = std::string(s.d->name) + "/" + s.f->name + "/" + (s.api == API_FAMILY ? "family" : s.api == API_ISAL ? "isal" : "legacy");
                const AlgoDesc &d = *s.d;
                e.ev(hash_str(s.tag.c_str()));
                // manager: uninitialised memory from the hidden stream
                // the manager goes wherever its public type allows: alignof(type), at a seeded multiple of it (in one run of two)
                {
                        size_t al = (p.seed >> 7) & 1 ? d.mgr_align : 64;
                        Place pl = (Place) (p.get("mgr_place") % 3);
                        if (al < 64)
                                pl = MID;
                        s.mgr = e.mem.alloc(d.mgr_size, al, pl, &e.hidden, "manager", R_OBJECT, al * (size_t) (1 + (p.seed >> 9) % 15));
                        s.r->cov.hit(strfmt("probe_manager_address_mod64_%d", (int) ((uintptr_t) s.mgr % 64)));
                }
                s.ctx_out = (uint64_t *) e.mem.alloc(8, 8, END_FLUSH, &e.hidden, "ctx_out slot", R_OUTPUT);
                int K = (int) std::max<int64_t>(1, std::min<int64_t>(p.get("clients"), 100));
                if (s.giant && K >= 2 && s.f->lanes >= 4) {
                        uint32_t lm = s.f->lanes >= 32 ? 0xffffffffu : ((1u << s.f->lanes) - 1);
                        if ((s.giant_mask & lm) == lm)
                                s.giant_mask &= ~(1u << (s.f->lanes / 2));
                        s.ngiant = (s.giant_mask & lm) ? __builtin_popcount(s.giant_mask & lm) : 1;
                        if (s.ngiant > 1 && K < s.ngiant + 2)
                                s.ngiant = 1, s.giant_mask = 0;
                }
                s.cl.resize(K);
                for (int i = 0; i < K; i++) {
                        Client &c = s.cl[i];
                        c.ref = RefHash(d.a);
                        c.ctx = e.mem.alloc(d.ctx_size, 64, (Place) ((i + p.get("mgr_place")) % 3), &e.hidden, "context", R_OBJECT, 64 * (size_t) (i % 7));
                        // isal_hash_ctx_init(ctx)
                        u32(c.ctx, d.off_error) = ISAL_HASH_CTX_ERROR_NONE;
                        u32(c.ctx, d.off_status) = ISAL_HASH_CTX_STS_COMPLETE;
                        c.user_tag = mix64(p.seed, 0x75e7 + (uint64_t) i);
                        u64(c.ctx, d.off_user) = c.user_tag;
                }
                // bind the dispatched entry points to the family under test when going through the public API
                void *sv[3] = { *d.disp_init, *d.disp_submit, *d.disp_flush };
                if (s.api != API_FAMILY) {
                        *d.disp_init = s.f->init;
                        *d.disp_submit = s.f->submit;
                        *d.disp_flush = s.f->flush;
                }
                struct Restore {
                        const AlgoDesc &d;
                        void **sv;
                        ~Restore()
                        {
                                *d.disp_init = sv[0];
                                *d.disp_submit = sv[1];
                                *d.disp_flush = sv[2];
                        }
                } restore{ d, sv };
                // init
                if (s.api == API_FAMILY)
                        e.call((std::string("_") + d.name + "_ctx_mgr_init_" + s.f->name).c_str(), s.f->init, { U(s.mgr) });
                else if (s.api == API_LEGACY)
                        e.call((std::string(d.name) + "_ctx_mgr_init").c_str(), d.leg_init, { U(s.mgr) });
                else {
                        int rc = (int) (uint32_t) e.call((std::string("isal_") + d.name + "_ctx_mgr_init").c_str(), d.isal_init, { U(s.mgr) });
                        e.obs(0x15, (uint64_t) rc);
                        if (rc)
                                e.violation("C11", "valid-call-failed", std::string("C11/valid-call-failed/") + d.name + "/init",
                                            strfmt("%s: manager init returned %d", s.tag.c_str(), rc));
                }
                e.check_buf(s.mgr, "mgr_init");
                if ((p.seed >> 13 & 7) == 0) {
                        // recycled manager: initialised, partly overwritten while unused, initialised again
                        e.recycle_corrupt(s.mgr, d.mgr_size, mix64(p.seed, 0x2ee1));
                        s.r->cov.hit("fault_object_recycled_between_two_inits_manager");
                        if (s.api == API_FAMILY)
                                e.call((std::string("_") + d.name + "_ctx_mgr_init_" + s.f->name).c_str(), s.f->init, { U(s.mgr) });
                        else if (s.api == API_LEGACY)
                                e.call((std::string(d.name) + "_ctx_mgr_init").c_str(), d.leg_init, { U(s.mgr) });
                        else
                                e.call((std::string("isal_") + d.name + "_ctx_mgr_init").c_str(), d.isal_init, { U(s.mgr) });
                        e.check_buf(s.mgr, "mgr_init");
                }
                for (size_t i = 0; i < p.ops.size(); i++) {
                        e.op_index = (int) i;
                        const Op &o = p.ops[i];
                        if (s.ngiant && !s.giants_used && (int64_t) i >= p.get("giant_at") % (int64_t) std::max<size_t>(1, p.ops.size())) {
                                if (s.ngiant == 1)
                                        op_giant(s, 0);
                                else {
                                        // scripted fill of the drained manager: submission i is a giant iff bit i of the mask is set
                                        op_flush(s, true);
                                        int gi = 0;
                                        for (int ln = 0; ln < s.f->lanes; ln++) {
                                                if ((s.giant_mask >> ln) & 1) {
                                                        if (gi < s.ngiant)
                                                                op_giant(s, gi++);
                                                } else {
                                                        Op so;
                                                        so.kind = OP_SUBMIT;
                                                        uint64_t hx = mix64(p.seed, 0x6f11 + (uint64_t) ln);
                                                        so.a = (int64_t) (hx & 0xffff);
                                                        so.b = (int64_t) ((hx >> 16) & 0xffff);
                                                        so.c = (int64_t) ((hx >> 32) & 0xffff);
                                                        so.d = (int64_t) ((hx >> 48) & 0xffff);
                                                        op_submit(s, so, false, false);
                                                }
                                        }
                                        s.r->cov.hit(strfmt("probe_scripted_fill_with_%d_giants", s.ngiant));
                                }
                        }
                        switch (o.kind) {
                        case OP_SUBMIT: op_submit(s, o, false, false); break;
                        case OP_RESTART: op_submit(s, o, true, false); break;
                        case OP_ZERO_LAST: op_submit(s, o, false, true); break;
                        case OP_FLUSH: op_flush(s, false); break;
                        case OP_DRAIN: op_flush(s, true); break;
                        case OP_REJECT: op_reject(s, o); break;
                        default: break;
                        }
                }
                // end of run: drain; every accepted LAST must have come back COMPLETE
                e.op_index = (int) p.ops.size();
                op_flush(s, true);
                if (s.giants_inflight)
                        s.r->cov.hit("probe_manager_abandoned_with_giant_unfinished");
                for (size_t i = 0; i < s.cl.size(); i++) {
                        if ((int) i < s.ngiant && s.cl[i].in_flight)
                                continue; // a giant left unfinished on purpose
                        Client &c = s.cl[i];
                        if (c.in_flight)
                                e.violation("C06", "stranded", "C06/stranded/" + s.tag,
                                            strfmt("%s: client %zu never came back although flush reports an empty manager", s.tag.c_str(), i), false);
                }
                e.check_mem_all("end of run");
        }

        void execute_long(const Plan &p, Env &e, RunResult &r);
        void execute_endure(const Plan &p, Env &e, RunResult &r);
        Plan generate_endure(uint64_t seed, uint64_t run_index);
        void execute_jump(const Plan &p, Env &e, RunResult &r);
        void execute_edge(const Plan &p, Env &e, RunResult &r);
        Plan generate_edge(uint64_t seed, uint64_t run_index);
        Plan generate_jump(uint64_t seed, uint64_t run_index);
};

// ====================================================================== C15 long-stream workload
// A 4 GiB + 2 MiB virtual window aliasing one 2 MiB memfd page run: segments of up to 2^32-1 bytes of
// a periodic stream without touching RAM. All long clients stream the same logical byte sequence
// (position p holds pattern[p mod 2 MiB]) under different segmentations.
static uint8_t *g_window = nullptr;
static const size_t WIN_PERIOD = 2u << 20;
static const uint64_t WIN_SIZE = (4ull << 30) + 2 * WIN_PERIOD;
static uint8_t *g_pattern = nullptr;

static uint8_t *window_base() { return g_window; }
static void build_window()
{
        if (g_window)
                return;
        int fd = memfd_create("isalsim-window", 0);
        if (fd < 0 || ftruncate(fd, WIN_PERIOD) != 0) {
                perror("memfd");
                exit(2);
        }
        g_pattern = (uint8_t *) mmap(nullptr, WIN_PERIOD, PROT_READ | PROT_WRITE, MAP_SHARED, fd, 0);
        Rng pr(0xC15C15C15ULL, "window");
        pr.fill(g_pattern, WIN_PERIOD);
        uint8_t *base = (uint8_t *) mmap(nullptr, WIN_SIZE + 2 * 4096, PROT_NONE, MAP_PRIVATE | MAP_ANONYMOUS | MAP_NORESERVE, -1, 0);
        if (base == MAP_FAILED) {
                perror("mmap window");
                exit(2);
        }
        g_window = base + 4096;
        for (uint64_t off = 0; off < WIN_SIZE; off += WIN_PERIOD)
                if (mmap(g_window + off, WIN_PERIOD, PROT_READ, MAP_SHARED | MAP_FIXED, fd, 0) == MAP_FAILED) {
                        perror("mmap alias");
                        exit(2);
                }
        close(fd);
}

// reference digests of the periodic stream are computed incrementally and cached per (algo, length)
struct LongRef {
        RefHash h;
        uint64_t pos = 0;
        LongRef(Algo a) : h(a) {}
        void advance_to(uint64_t target)
        {
                while (pos < target) {
                        uint64_t off = pos % WIN_PERIOD;
                        uint64_t n = std::min<uint64_t>(WIN_PERIOD - off, target - pos);
                        h.update(g_pattern + off, n);
                        pos += n;
                }
        }
};

} // namespace

// Reference hash state of the first 'goal' bytes of the periodic stream. Independent of seeds, so it is cached on
// disk (directory $ISALSIM_REFCACHE, filled by `isalsim refcache` during setup) as the raw model state.
RefHash long_reference(Algo a, uint64_t goal)
{
        build_window();
        std::string path;
        if (const char *dir = getenv("ISALSIM_REFCACHE"))
                path = std::string(dir) + strfmt("/%s-%llu-v1.bin", algo_name[a], (unsigned long long) goal);
        RefHash h(a);
        if (!path.empty()) {
                std::string blob = read_file(path);
                if (blob.size() == sizeof(RefHash)) {
                        memcpy((void *) &h, blob.data(), sizeof(RefHash));
                        if (h.a == a && (uint64_t) h.total == goal)
                                return h;
                }
        }
        LongRef lref(a);
        lref.advance_to(goal);
        if (!path.empty())
                write_file(path, std::string((const char *) &lref.h, sizeof(RefHash)));
        return lref.h;
}

std::vector<std::pair<int, uint64_t>> long_reference_keys()
{
        std::vector<std::pair<int, uint64_t>> v;
        static const uint64_t thr[5] = { 1ull << 28, 1ull << 29, 1ull << 30, 1ull << 32, (1ull << 32) + (1ull << 29) };
        for (int a = 0; a < A_N; a++)
                for (uint64_t t : thr)
                        v.emplace_back(a, t + 3 * g_algos[a].block + 17);
        return v;
}

namespace {

Plan HashMgrSim::generate_long(uint64_t seed, bool thorough, uint64_t run_index, bool giant_alone)
{
        Rng g(seed, "plan-long");
        Plan p;
        p.cfg["mode"] = 1;
        // (algorithm, family) pairs are visited round-robin by run index so that every pair is covered
        std::vector<std::pair<int, int>> pairs;
        for (int a = 0; a < A_N; a++)
                for (size_t f = 0; f < g_algos[a].fams.size(); f++)
                        pairs.emplace_back(a, (int) f);
        auto pr = pairs[run_index % pairs.size()];
        // which thresholds to cross: 1 = 2^29, 2 = 2^32, 3 = 2^32 + 2^29
        int target;
        if (thorough)
                target = (run_index / pairs.size()) % 2 == 0 ? 3 : 2; // (this sim owns run indices 0..9 and 682..727 of the thorough tier)
        else
                target = 2; // every pair crosses 2^29 and 2^32 in one stream
        p.cfg["algo"] = pr.first;
        p.cfg["family"] = pr.second;
        p.cfg["api"] = g.chance(1, 3) ? API_ISAL : API_FAMILY;
        p.cfg["target"] = target;
        p.cfg["max_long"] = thorough ? 3 : 2;
        p.cfg["short_clients"] = (int) g.below(3);
        if (giant_alone) {
                // one client, one ENTIRE segment of 2^30 + 3 blocks + 17 bytes, flushed to the end (with at most two short clients around)
                p.cfg["target"] = 0;
                p.cfg["max_long"] = 1;
        }
        // each op: one scheduling decision; a = client selector, b = length style, c = length value, d = misc
        int nops = 400;
        for (int i = 0; i < nops; i++) {
                Op o;
                o.kind = OP_LONG;
                o.a = (int64_t) g.below(1 << 16);
                o.b = (int64_t) g.below(1 << 16);
                o.c = (int64_t) g.next() & 0x7fffffffffffLL;
                o.d = (int64_t) g.below(1 << 16);
                p.ops.push_back(o);
        }
        return p;
}

void HashMgrSim::execute_long(const Plan &p, Env &e, RunResult &r)
{
        build_window();
        St s;
        s.d = &g_algos[p.get("algo") % A_N];
        s.f = &s.d->fams[p.get("family") % s.d->fams.size()];
        s.api = (int) p.get("api");
        s.env = &e;
        s.r = &r;
        s.plan_seed = p.seed;
        s.size_regime = 0;
        s.tag = std::string(s.d->name) + "/" + s.f->name + "/" + (s.api == API_FAMILY ? "family" : "isal") + "/long";
        const AlgoDesc &d = *s.d;
        e.poison_regs = true;
        int target = (int) p.get("target", 1);
        // (each long client has its own final total, see long_goal below)
        s.mgr = e.mem.alloc(d.mgr_size, 64, START_FLUSH, &e.hidden, "manager", R_OBJECT);
        s.ctx_out = (uint64_t *) e.mem.alloc(8, 8, END_FLUSH, &e.hidden, "ctx_out slot", R_OUTPUT);
        int nlong = std::max(1, std::min(s.f->lanes ? s.f->lanes : 8, (int) p.get("max_long", 2))); // long clients (each hashes > goal bytes)
        int nshort = (int) p.get("short_clients");
        int K = nlong + nshort;
        s.cl.resize(K);
        for (int i = 0; i < K; i++) {
                Client &c = s.cl[i];
                c.ref = RefHash(d.a);
                c.ctx = e.mem.alloc(d.ctx_size, 64, MID, &e.hidden, "context", R_OBJECT, 64 * (size_t) (i % 5));
                u32(c.ctx, d.off_error) = ISAL_HASH_CTX_ERROR_NONE;
                u32(c.ctx, d.off_status) = ISAL_HASH_CTX_STS_COMPLETE;
                c.user_tag = mix64(p.seed, 0x75e7 + (uint64_t) i);
                u64(c.ctx, d.off_user) = c.user_tag;
        }
        // final totals: long client 0 ends a little past the run's target threshold, further long clients a little past the
        // lower thresholds, so that totals in each of [2^29,2^32), [2^32,2^32+2^29) and beyond are completed and checked
        for (int i = 0; i < nlong; i++) {
                int ti = target == 0 ? 0 : std::max(1, target - i);
                uint64_t gi = ti == 0 ? (1ull << 30) : ti == 1 ? (1ull << 29) : ti == 2 ? (1ull << 32) : (1ull << 32) + (1ull << 29);
                s.cl[i].long_goal = gi + 3 * d.block + 17;
        }
        void *sv[3] = { *d.disp_init, *d.disp_submit, *d.disp_flush };
        if (s.api != API_FAMILY) {
                *d.disp_init = s.f->init;
                *d.disp_submit = s.f->submit;
                *d.disp_flush = s.f->flush;
        }
        struct Restore {
                const AlgoDesc &d;
                void **sv;
                ~Restore()
                {
                        *d.disp_init = sv[0];
                        *d.disp_submit = sv[1];
                        *d.disp_flush = sv[2];
                }
        } restore{ d, sv };
        if (s.api == API_FAMILY)
                e.call((std::string("_") + d.name + "_ctx_mgr_init_" + s.f->name).c_str(), s.f->init, { U(s.mgr) });
        else
                e.call((std::string("isal_") + d.name + "_ctx_mgr_init").c_str(), d.isal_init, { U(s.mgr) });
        static std::map<std::pair<int, uint64_t>, RefHash> lref_cache; // reference digests of the periodic stream, per process
        static const uint64_t thresholds[3] = { 1ull << 29, 1ull << 32, (1ull << 32) + (1ull << 29) };
        size_t opi = 0;
        int guard = 0;
        auto all_done = [&]() {
                for (int i = 0; i < nlong; i++)
                        if (!s.cl[i].complete)
                                return false;
                return true;
        };
        while (!all_done() && guard++ < 100000 && e.mem.nbufs() < 20000) {
                const Op &o = p.ops[opi % p.ops.size()];
                uint64_t salt = opi / p.ops.size();
                opi++;
                e.op_index = (int) (opi - 1);
                // choose a client that is not in flight
                std::vector<int> el;
                for (int i = 0; i < K; i++)
                        if (!s.cl[i].in_flight && !(i < nlong && s.cl[i].complete) && (i < nlong || (o.d & 3) == 0))
                                el.push_back(i);
                if (el.empty()) {
                        op_flush(s, false);
                        continue;
                }
                int ci = el[(o.a + salt) % el.size()];
                Client &c = s.cl[ci];
                if (ci >= nlong) {
                        // short client: ordinary small segment
                        St &sr = s;
                        // temporarily restrict eligibility to this client by direct submit
                        uint32_t flags = !c.started ? ((o.c & 3) == 0 ? ISAL_HASH_ENTIRE : ISAL_HASH_FIRST)
                                                    : ((o.c % 3) == 0 ? ISAL_HASH_LAST : ISAL_HASH_UPDATE);
                        uint32_t len = seg_len(sr, o.b, o.c >> 2);
                        uint8_t *buf = make_buffer(sr, c, ci, len, o.d);
                        if (!c.started) {
                                c.ref.reset();
                                c.total = 0;
                                c.started = true;
                                c.complete = false;
                        }
                        c.ref.update(buf, len);
                        c.total += len;
                        c.nseg++;
                        c.last_sent = (flags & ISAL_HASH_LAST) != 0;
                        int rc;
                        uint64_t ret = do_submit(sr, c.ctx, buf, len, flags, &rc);
                        e.obs(0x11, (uint64_t) rc);
                        if (ret == (uint64_t) (uintptr_t) c.ctx)
                                handed_back(sr, ci, "its own submit", false);
                        else {
                                c.in_flight = true;
                                s.inflight++;
                                process_return(sr, ret, ci, "submit");
                        }
                        post_call_invariants(s, "submit");
                        continue;
                }
                // long client: next segment of the periodic stream
                uint64_t pos = c.long_pos;
                const uint64_t goal = c.long_goal;
                uint64_t remaining = goal - pos;
                // next threshold ahead
                uint64_t next_thr = goal;
                for (uint64_t t : thresholds)
                        if (t > pos && t < next_thr)
                                next_thr = t;
                uint64_t dist = next_thr - pos;
                uint64_t len;
                if (dist > (8u << 20)) {
                        // far from a threshold: a big segment (up to 2^32-1), landing at a seeded distance before the threshold
                        uint64_t maxseg = std::min<uint64_t>(0xffffffffull, dist - (uint64_t) ((o.c + salt * 977) % (4u << 20)) - 1);
                        switch (o.b % 4) {
                        case 0: len = maxseg; break;
                        case 1: len = std::max<uint64_t>(1, maxseg / 2 + (o.c % 4096)); break;
                        case 2: len = std::min<uint64_t>(maxseg, (256u << 20) + (o.c % (64u << 20))); break;
                        default: len = std::min<uint64_t>(maxseg, 0xffffffffull - (o.c % 128)); break;
                        }
                        if (len > maxseg)
                                len = maxseg;
                } else if (dist > (48u << 10)) {
                        // approach: one or two medium segments ending at a seeded, unaligned distance (< 48 KiB) before the threshold
                        uint64_t stop = 1 + (uint64_t) ((o.c ^ (salt * 7919)) % (40u << 10));
                        len = (o.b & 1) ? dist - stop : std::max<uint64_t>(1, (dist - stop) / 2 + (o.c % 63));
                } else {
                        // burst of small unaligned segments around the threshold
                        switch (o.b % 6) {
                        case 0: len = 1 + (o.c % (2 * d.block)); break;
                        case 1: len = (o.c % 8192) + 1; break;
                        case 2: len = d.block * (1 + o.c % 16) + (o.c >> 8) % d.block; break;
                        case 3: len = dist; break; // land exactly on the threshold
                        case 4: len = dist + 1 + (o.c % (3 * d.block)); break; // straddle it
                        default: len = (o.c % 2) ? dist - 1 : dist + d.block; break;
                        }
                        if (len == 0)
                                len = 1;
                }
                if (target == 0) {
                        len = remaining; // the whole message in one segment
                        r.cov.hit("probe_single_ENTIRE_segment_ge_2^30_flushed_to_the_end");
                }
                if (len > remaining)
                        len = remaining;
                if (len > 0xffffffffull)
                        len = 0xffffffffull;
                bool first = !c.started;
                bool last = (pos + len == goal);
                uint32_t flags = (first ? ISAL_HASH_FIRST : 0) | (last ? ISAL_HASH_LAST : 0);
                if (first) {
                        c.total = 0;
                        c.started = true;
                        c.complete = false;
                }
                const uint8_t *buf = g_window + (pos % WIN_PERIOD);
                for (uint64_t t : thresholds)
                        if (pos < t && pos + len >= t)
                                r.cov.hit(strfmt("probe_crossed_2^%s_at_block_residue_class_%d", t == thresholds[0] ? "29" : t == thresholds[1] ? "32" : "32+2^29",
                                                 (int) (((t - pos) % d.block) * 4 / d.block)));
                if (len >= (1ull << 31))
                        r.cov.hit("probe_single_submit_ge_2^31_bytes");
                c.total += len;
                c.long_pos += len;
                c.nseg++;
                c.last_sent = last;
                e.ev(mix64(OP_LONG, ((uint64_t) ci << 56) ^ len));
                int rc;
                uint64_t ret = do_submit(s, c.ctx, buf, (uint32_t) len, flags, &rc);
                e.obs(0x11, (uint64_t) rc);
                if (s.api == API_ISAL && rc != 0)
                        e.violation("C15", "valid-call-failed", "C15/valid-call-failed/" + s.tag, strfmt("%s: valid submit returned %d", s.tag.c_str(), rc));
                if (last) {
                        // expected digest: the shared streaming reference advanced to 'goal'
                        auto key = std::make_pair((int) d.a, goal);
                        auto it = lref_cache.find(key);
                        if (it == lref_cache.end())
                                it = lref_cache.emplace(key, long_reference(d.a, goal)).first;
                        c.ref = it->second;
                }
                if (ret == (uint64_t) (uintptr_t) c.ctx)
                        handed_back(s, ci, "its own submit", false);
                else {
                        c.in_flight = true;
                        s.inflight++;
                        process_return(s, ret, ci, "submit");
                }
                post_call_invariants(s, "submit");
                r.cov.state(mix64(mix64((uint64_t) d.a * 16 + (uint64_t) (s.f - &d.fams[0]), pos >> 26), len >> 20));
        }
        r.cov.hit("long_loop_iterations", (uint64_t) guard);
        op_flush(s, true);
        // a plan whose (possibly shrunk) op list does not get the long clients to their final totals within the step budget says
        // nothing about the library: counted, not judged
        for (int i = 0; i < nlong; i++)
                if (!s.cl[i].complete)
                        r.cov.hit("long_client_did_not_reach_its_total_within_the_step_budget");
        e.check_mem_all("end of run");
}

// ---------------------------------------------------------------------- counter jump (C15 far beyond 2^32)
// Streaming 2^38 or 2^56 bytes is not possible, but the only place where a context remembers how much it has hashed is
// ctx->total_length (the digest words do not depend on it; only the padding does). While the context is idle between two UPDATE
// segments the harness adds a whole number of blocks J to that counter - a "clock jump" - and adds the same J to the reference
// model's length. From then on library and model must agree on the padding of a message whose length is near 2^k, k up to 60,
// at a cost of a few MiB. Assumption (checked: a run in which the library's reported total does not follow the jump is discarded,
// not judged): total_length is the library's only record of the running total.
Plan HashMgrSim::generate_jump(uint64_t seed, uint64_t run_index)
{
        Rng g(seed, "plan-jump");
        Plan p;
        p.cfg["mode"] = 4;
        std::vector<std::pair<int, int>> pairs;
        for (int a = 0; a < A_N; a++)
                for (size_t f = 0; f < g_algos[a].fams.size(); f++)
                        pairs.emplace_back(a, (int) f);
        auto pr = pairs[run_index % pairs.size()];
        p.cfg["algo"] = pr.first;
        p.cfg["family"] = pr.second;
        p.cfg["api"] = g.chance(1, 3) ? API_ISAL : API_FAMILY;
        static const int ks[12] = { 33, 34, 35, 36, 37, 38, 40, 44, 48, 52, 56, 60 };
        // the visits of one pair take strides of 5 through the 12 exponents, so that any five consecutive visits include large ones
        p.cfg["jump_k"] = ks[((run_index / pairs.size()) * 5 + (run_index % pairs.size()) * 7) % 12];
        int nops = 60;
        for (int i = 0; i < nops; i++) {
                Op o;
                o.kind = OP_LONG;
                o.a = (int64_t) g.below(1 << 16);
                o.b = (int64_t) g.below(1 << 16);
                o.c = (int64_t) g.next() & 0x7fffffffffffLL;
                o.d = (int64_t) g.below(1 << 16);
                p.ops.push_back(o);
        }
        return p;
}

void HashMgrSim::execute_jump(const Plan &p, Env &e, RunResult &r)
{
        build_window();
        St s;
        s.d = &g_algos[p.get("algo") % A_N];
        s.f = &s.d->fams[p.get("family") % s.d->fams.size()];
        s.api = (int) p.get("api");
        s.env = &e;
        s.r = &r;
        s.plan_seed = p.seed;
        s.size_regime = 0;
        s.jump_run = true;
        const int k = (int) std::max<int64_t>(33, std::min<int64_t>(60, p.get("jump_k", 38)));
        s.tag = std::string(s.d->name) + "/" + s.f->name + "/" + (s.api == API_FAMILY ? "family" : "isal") + strfmt("/jump2^%d", k);
        const AlgoDesc &d = *s.d;
        e.poison_regs = true;
        s.mgr = e.mem.alloc(d.mgr_size, 64, START_FLUSH, &e.hidden, "manager", R_OBJECT);
        s.ctx_out = (uint64_t *) e.mem.alloc(8, 8, END_FLUSH, &e.hidden, "ctx_out slot", R_OUTPUT);
        s.cl.resize(1);
        Client &c = s.cl[0];
        c.ref = RefHash(d.a);
        c.ctx = e.mem.alloc(d.ctx_size, 64, MID, &e.hidden, "context", R_OBJECT, 64);
        u32(c.ctx, d.off_error) = ISAL_HASH_CTX_ERROR_NONE;
        u32(c.ctx, d.off_status) = ISAL_HASH_CTX_STS_COMPLETE;
        c.user_tag = mix64(p.seed, 0x75e7);
        u64(c.ctx, d.off_user) = c.user_tag;
        void *sv[3] = { *d.disp_init, *d.disp_submit, *d.disp_flush };
        if (s.api != API_FAMILY) {
                *d.disp_init = s.f->init;
                *d.disp_submit = s.f->submit;
                *d.disp_flush = s.f->flush;
        }
        struct Restore {
                const AlgoDesc &d;
                void **sv;
                ~Restore()
                {
                        *d.disp_init = sv[0];
                        *d.disp_submit = sv[1];
                        *d.disp_flush = sv[2];
                }
        } restore{ d, sv };
        if (s.api == API_FAMILY)
                e.call((std::string("_") + d.name + "_ctx_mgr_init_" + s.f->name).c_str(), s.f->init, { U(s.mgr) });
        else
                e.call((std::string("isal_") + d.name + "_ctx_mgr_init").c_str(), d.isal_init, { U(s.mgr) });
        const uint64_t thr = 1ull << k;
        const uint64_t goal = thr + d.block + 2 + (uint64_t) (p.ops[0].c % (2 * d.block));
        uint64_t pos = 0; // logical stream position = running total
        size_t opi = 0;
        auto segment = [&](uint64_t len, bool first, bool last) {
                const uint8_t *buf = g_window + (pos % WIN_PERIOD);
                c.ref.update(buf, (size_t) len);
                c.total += len;
                c.nseg++;
                c.last_sent = last;
                if (first) {
                        c.started = true;
                        c.complete = false;
                }
                e.ev(mix64(OP_LONG, len ^ (pos << 20)));
                int rc;
                uint64_t ret = do_submit(s, c.ctx, buf, (uint32_t) len, (first ? ISAL_HASH_FIRST : 0) | (last ? ISAL_HASH_LAST : 0), &rc);
                e.obs(0x11, (uint64_t) rc);
                if (s.api == API_ISAL && rc != 0)
                        e.violation("C15", "valid-call-failed", "C15/valid-call-failed/" + s.tag, strfmt("%s: valid submit returned %d", s.tag.c_str(), rc));
                if (ret == (uint64_t) (uintptr_t) c.ctx)
                        handed_back(s, 0, "its own submit", false);
                else {
                        c.in_flight = true;
                        s.inflight++;
                        process_return(s, ret, 0, "submit");
                }
                post_call_invariants(s, "submit");
                for (int guard = 0; c.in_flight && guard < 8; guard++)
                        op_flush(s, false);
                pos += len;
        };
        // phase A: a few real segments with unaligned lengths
        int nA = 1 + (int) (p.ops[0].a % 3);
        for (int i = 0; i < nA; i++) {
                const Op &o = p.ops[opi++ % p.ops.size()];
                segment(1 + (uint64_t) (o.c % (1u << 20)), i == 0, false);
        }
        // the jump: a whole number of blocks, landing a seeded distance (< 3 MiB) before 2^k
        {
                const Op &o = p.ops[opi++ % p.ops.size()];
                uint64_t D = 1 + (uint64_t) (o.c % (3u << 20));
                uint64_t J = ((thr - D - pos) / d.block) * d.block;
                u64(c.ctx, d.off_total) += J;
                s.jump_J = J;
                c.total += J;
                c.ref.total += J;
                pos += J;
                r.cov.hit(strfmt("fault_counter_jump_to_2^%d", k));
                e.ev(mix64(0x10ab, J));
        }
        // phase B: approach and cross 2^k as the long streams do, then LAST exactly at goal
        int guard = 0, tiny_after = 0;
        while (pos < goal && guard++ < 200) {
                const Op &o = p.ops[opi++ % p.ops.size()];
                uint64_t dist = pos < thr ? thr - pos : goal - pos;
                uint64_t len;
                if (pos < thr && dist > (48u << 10)) {
                        uint64_t stop = 1 + (uint64_t) (o.c % (40u << 10));
                        len = (o.b & 1) ? dist - stop : std::max<uint64_t>(1, (dist - stop) / 2 + (o.c % 63));
                } else if (pos < thr) {
                        switch (o.b % 6) {
                        case 0: len = 1 + (o.c % (2 * d.block)); break;
                        case 1: len = (o.c % 8192) + 1; break;
                        case 2: len = d.block * (1 + o.c % 16) + (o.c >> 8) % d.block; break;
                        case 3: len = dist; break;
                        case 4: len = dist + 1 + (o.c % (3 * d.block)); break;
                        default: len = (o.c % 2) ? std::max<uint64_t>(1, dist - 1) : dist + d.block; break;
                        }
                } else if (goal - pos > 1 && tiny_after++ < 5) {
                        // beyond 2^k: a few tiny non-final updates (they stay inside the pending block, one of them empty), then the rest
                        len = tiny_after == 3 ? 0 : std::min<uint64_t>(1 + (uint64_t) (o.c % 40), goal - pos - 1);
                        r.cov.hit("probe_tiny_update_beyond_2^k_after_counter_jump");
                } else
                        len = dist;
                if (len > goal - pos)
                        len = goal - pos;
                if (len == 0 && !(pos >= thr && tiny_after == 3))
                        len = 1;
                bool last = pos + len == goal && len > 0;
                if (pos < thr && pos + len >= thr)
                        r.cov.hit(strfmt("probe_crossed_2^%d_after_counter_jump", k));
                segment(len, false, last);
        }
        if (!c.complete)
                r.cov.hit("jump_run_did_not_complete_within_the_step_budget");
        op_flush(s, true);
        e.check_mem_all("end of run");
}

// ---------------------------------------------------------------------- edge: pending bytes + a segment of almost 2^32 bytes
// A context with 1 .. block-1 bytes pending receives one more segment of 2^32-63 .. 2^32-1 bytes: every "pending + len" computed in
// 32 bits wraps. Only the beginning of that submit matters (the copy that completes the pending block), so the call runs under a
// CPU limit of 0.4 s and is abandoned there when the family hashes inline (base, sb_sse4, ...): nothing is observed afterwards.
// Families with lanes just queue the job and return; the manager is then abandoned. All 28 pairs in turn.
Plan HashMgrSim::generate_edge(uint64_t seed, uint64_t run_index)
{
        Rng g(seed, "plan-edge");
        Plan p;
        p.cfg["mode"] = 5;
        std::vector<std::pair<int, int>> pairs;
        for (int a = 0; a < A_N; a++)
                for (size_t f = 0; f < g_algos[a].fams.size(); f++)
                        pairs.emplace_back(a, (int) f);
        auto pr = pairs[run_index % pairs.size()];
        p.cfg["algo"] = pr.first;
        p.cfg["family"] = pr.second;
        p.cfg["api"] = g.chance(1, 3) ? API_ISAL : API_FAMILY;
        p.cfg["pending"] = 1 + (int64_t) g.below(g_algos[pr.first].block - 1);
        p.cfg["short_by"] = (int64_t) g.below((uint64_t) p.cfg["pending"]); // the big segment has 2^32 - 1 - short_by bytes: pending + len >= 2^32
        p.cfg["last"] = (int64_t) g.below(2);
        Op o;
        o.kind = OP_LONG;
        p.ops.push_back(o);
        return p;
}

void HashMgrSim::execute_edge(const Plan &p, Env &e, RunResult &r)
{
        build_window();
        St s;
        s.d = &g_algos[p.get("algo") % A_N];
        s.f = &s.d->fams[p.get("family") % s.d->fams.size()];
        s.api = (int) p.get("api");
        s.env = &e;
        s.r = &r;
        s.plan_seed = p.seed;
        s.tag = std::string(s.d->name) + "/" + s.f->name + "/" + (s.api == API_FAMILY ? "family" : "isal") + "/edge";
        const AlgoDesc &d = *s.d;
        e.poison_regs = true;
        s.mgr = e.mem.alloc(d.mgr_size, 64, START_FLUSH, &e.hidden, "manager", R_OBJECT);
        s.ctx_out = (uint64_t *) e.mem.alloc(8, 8, END_FLUSH, &e.hidden, "ctx_out slot", R_OUTPUT);
        s.cl.resize(1);
        Client &c = s.cl[0];
        c.ref = RefHash(d.a);
        // the context ends flush against an inaccessible page: a copy that runs past its extra-block buffer faults at once
        c.ctx = e.mem.alloc(d.ctx_size, 64, END_FLUSH, &e.hidden, "context", R_OBJECT);
        u32(c.ctx, d.off_error) = ISAL_HASH_CTX_ERROR_NONE;
        u32(c.ctx, d.off_status) = ISAL_HASH_CTX_STS_COMPLETE;
        c.user_tag = mix64(p.seed, 0x75e7);
        u64(c.ctx, d.off_user) = c.user_tag;
        void *sv[3] = { *d.disp_init, *d.disp_submit, *d.disp_flush };
        if (s.api != API_FAMILY) {
                *d.disp_init = s.f->init;
                *d.disp_submit = s.f->submit;
                *d.disp_flush = s.f->flush;
        }
        struct Restore {
                const AlgoDesc &d;
                void **sv;
                ~Restore()
                {
                        *d.disp_init = sv[0];
                        *d.disp_submit = sv[1];
                        *d.disp_flush = sv[2];
                }
        } restore{ d, sv };
        if (s.api == API_FAMILY)
                e.call((std::string("_") + d.name + "_ctx_mgr_init_" + s.f->name).c_str(), s.f->init, { U(s.mgr) });
        else
                e.call((std::string("isal_") + d.name + "_ctx_mgr_init").c_str(), d.isal_init, { U(s.mgr) });
        // FIRST: 'pending' bytes (less than a block: they stay in the context)
        uint32_t pend = (uint32_t) std::max<int64_t>(1, std::min<int64_t>(p.get("pending"), (int64_t) d.block - 1));
        int rc;
        c.started = true;
        c.total = pend;
        c.last_sent = false;
        c.nseg = 1;
        uint64_t ret = do_submit(s, c.ctx, g_window, pend, ISAL_HASH_FIRST, &rc);
        if (ret == (uint64_t) (uintptr_t) c.ctx)
                handed_back(s, 0, "its own submit", false);
        else {
                c.in_flight = true;
                s.inflight++;
                process_return(s, ret, 0, "submit");
                for (int guard = 0; c.in_flight && guard < 4; guard++)
                        op_flush(s, false);
        }
        // the big segment
        uint32_t big = 0xffffffffu - (uint32_t) (p.get("short_by") % 64);
        r.cov.hit("fault_pending_bytes_plus_segment_of_almost_2^32_bytes");
        e.ev(mix64(OP_LONG, ((uint64_t) pend << 40) ^ big));
        e.call_cpu_limit_s = 0.4;
        e.cancel_is_benign = true;
        c.total += big;
        c.nseg++;
        ret = do_submit(s, c.ctx, g_window + pend, big, p.get("last") ? ISAL_HASH_LAST : ISAL_HASH_UPDATE, &rc);
        e.call_cpu_limit_s = 0;
        e.cancel_is_benign = false;
        r.cov.hit("probe_edge_submit_returned_without_being_cancelled");
        e.check_buf(c.ctx, "submit");
        e.check_buf(s.mgr, "submit");
        // the manager is abandoned with the job in flight (or, if a fast family finished it inline, with the context handed back)
        e.check_mem_all("end of run");
}

// ---------------------------------------------------------------------- endurance: one long-lived manager
// One manager, never more than two jobs in flight (most lanes stay idle), tens of GiB hashed through the flush path as a sequence of
// 2^28-byte ENTIRE jobs of the periodic stream, each compared with the cached reference. Whatever a manager accumulates over its
// lifetime (lane-length words of idle lanes that are not refreshed, counters that only ever grow) shows up here and nowhere else.
Plan HashMgrSim::generate_endure(uint64_t seed, uint64_t run_index)
{
        Rng g(seed, "plan-endure");
        Plan p;
        p.cfg["mode"] = 3;
        std::vector<std::pair<int, int>> pairs;
        for (int a = 0; a < A_N; a++)
                for (size_t f = 0; f < g_algos[a].fams.size(); f++)
                        pairs.emplace_back(a, (int) f);
        auto pr = pairs[run_index % pairs.size()];
        const AlgoDesc &d = g_algos[pr.first];
        p.cfg["algo"] = pr.first;
        p.cfg["family"] = pr.second;
        p.cfg["api"] = g.chance(1, 3) ? API_ISAL : API_FAMILY;
        // lane-length words are (blocks << k | lane) in 32 bits: 2^28 blocks are 16 GiB of 64-byte blocks, 32 GiB of 128-byte blocks
        p.cfg["endure_gib"] = d.fams[pr.second].lanes >= 4 ? (d.block == 128 ? 36 : 20) : 1;
        p.cfg["two_in_flight"] = (int64_t) g.below(2);
        Op o;
        o.kind = OP_LONG;
        p.ops.push_back(o);
        return p;
}

void HashMgrSim::execute_endure(const Plan &p, Env &e, RunResult &r)
{
        build_window();
        St s;
        s.d = &g_algos[p.get("algo") % A_N];
        s.f = &s.d->fams[p.get("family") % s.d->fams.size()];
        s.api = (int) p.get("api");
        s.env = &e;
        s.r = &r;
        s.plan_seed = p.seed;
        s.size_regime = 0;
        s.tag = std::string(s.d->name) + "/" + s.f->name + "/" + (s.api == API_FAMILY ? "family" : "isal") + "/endurance";
        const AlgoDesc &d = *s.d;
        e.poison_regs = true;
        s.mgr = e.mem.alloc(d.mgr_size, 64, START_FLUSH, &e.hidden, "manager", R_OBJECT);
        s.ctx_out = (uint64_t *) e.mem.alloc(8, 8, END_FLUSH, &e.hidden, "ctx_out slot", R_OUTPUT);
        const int K = p.get("two_in_flight") ? 2 : 1;
        s.cl.resize(K);
        for (int i = 0; i < K; i++) {
                Client &c = s.cl[i];
                c.ref = RefHash(d.a);
                c.ctx = e.mem.alloc(d.ctx_size, 64, MID, &e.hidden, "context", R_OBJECT, 64 * (size_t) (i % 5));
                u32(c.ctx, d.off_error) = ISAL_HASH_CTX_ERROR_NONE;
                u32(c.ctx, d.off_status) = ISAL_HASH_CTX_STS_COMPLETE;
                c.user_tag = mix64(p.seed, 0x75e7 + (uint64_t) i);
                u64(c.ctx, d.off_user) = c.user_tag;
        }
        void *sv[3] = { *d.disp_init, *d.disp_submit, *d.disp_flush };
        if (s.api != API_FAMILY) {
                *d.disp_init = s.f->init;
                *d.disp_submit = s.f->submit;
                *d.disp_flush = s.f->flush;
        }
        struct Restore {
                const AlgoDesc &d;
                void **sv;
                ~Restore()
                {
                        *d.disp_init = sv[0];
                        *d.disp_submit = sv[1];
                        *d.disp_flush = sv[2];
                }
        } restore{ d, sv };
        if (s.api == API_FAMILY)
                e.call((std::string("_") + d.name + "_ctx_mgr_init_" + s.f->name).c_str(), s.f->init, { U(s.mgr) });
        else
                e.call((std::string("isal_") + d.name + "_ctx_mgr_init").c_str(), d.isal_init, { U(s.mgr) });
        const uint64_t goal = (1ull << 28) + 3 * d.block + 17;
        static std::map<int, RefHash> refs;
        auto it = refs.find((int) d.a);
        if (it == refs.end())
                it = refs.emplace((int) d.a, long_reference(d.a, goal)).first;
        const uint64_t target = (uint64_t) p.get("endure_gib") << 30;
        uint64_t pushed = 0, rep = 0;
        while (pushed < target) {
                for (int i = 0; i < K; i++) {
                        Client &c = s.cl[i];
                        e.op_index = (int) rep;
                        c.ref = it->second;
                        c.total = goal;
                        c.started = true;
                        c.complete = false;
                        c.last_sent = true;
                        c.nseg++;
                        const uint8_t *buf = g_window + WIN_PERIOD * ((rep * 2 + (uint64_t) i) % 8); // same content at a different address
                        e.ev(mix64(OP_LONG, rep * 2 + (uint64_t) i));
                        int rc;
                        uint64_t ret = do_submit(s, c.ctx, buf, (uint32_t) goal, ISAL_HASH_ENTIRE, &rc);
                        e.obs(0x11, (uint64_t) rc);
                        if (s.api == API_ISAL && rc != 0)
                                e.violation("C01", "valid-call-failed", "C01/valid-call-failed/" + s.tag, strfmt("%s: valid submit returned %d", s.tag.c_str(), rc));
                        if (ret == (uint64_t) (uintptr_t) c.ctx)
                                handed_back(s, i, "its own submit", false);
                        else {
                                c.in_flight = true;
                                s.inflight++;
                                process_return(s, ret, i, "submit");
                        }
                        post_call_invariants(s, "submit");
                        pushed += goal;
                }
                op_flush(s, true);
                for (int i = 0; i < K; i++)
                        if (!s.cl[i].complete)
                                e.violation("C06", "stranded", "C06/stranded/" + s.tag,
                                            strfmt("%s: job %llu did not complete although the manager was drained", s.tag.c_str(), (unsigned long long) rep), false);
                rep++;
                r.cov.state(mix64((uint64_t) d.a * 16 + (uint64_t) (s.f - &d.fams[0]), pushed >> 30));
        }
        r.cov.hit(strfmt("probe_manager_lifetime_GiB_%lld", (long long) p.get("endure_gib")));
        e.check_mem_all("end of run");
}

} // namespace

Sim *make_hashmgr_sim() { return new HashMgrSim(); }

// C15 plan generation hook used by the driver through a thin adaptor sim
namespace {
struct HashLongSim : HashMgrSim {
        const char *name() const override { return "hashlong"; }
        Plan generate(uint64_t seed, const std::string &, bool thorough, uint64_t idx) override { return generate_long(seed, thorough, idx); }
};
} // namespace
Sim *make_hashlong_sim() { return new HashLongSim(); }
namespace {
struct HashGiantSim : HashMgrSim {
        const char *name() const override { return "hashgiant"; }
        Plan generate(uint64_t seed, const std::string &, bool thorough, uint64_t idx) override { return generate_long(seed, thorough, idx, true); }
};
} // namespace
Sim *make_hashgiant_sim() { return new HashGiantSim(); }
namespace {
struct HashEndureSim : HashMgrSim {
        const char *name() const override { return "hashendure"; }
        Plan generate(uint64_t seed, const std::string &, bool, uint64_t idx) override { return generate_endure(seed, idx); }
};
} // namespace
Sim *make_hashendure_sim() { return new HashEndureSim(); }
namespace {
// quota workload: the scripted fill with several giants on every family with >= 8 lanes in turn, all mask layouts in turn
struct HashFillSim : HashMgrSim {
        const char *name() const override { return "hashfill"; }
        Plan generate(uint64_t seed, const std::string &focus, bool thorough, uint64_t idx) override
        {
                Plan p = HashMgrSim::generate(seed, focus, thorough, idx);
                std::vector<std::pair<int, int>> wide;
                for (int a = 0; a < A_N; a++)
                        for (size_t f = 0; f < g_algos[a].fams.size(); f++)
                                if (g_algos[a].fams[f].lanes >= 8)
                                        wide.emplace_back(a, (int) f);
                if (wide.empty())
                        return p;
                auto pr = wide[idx % wide.size()];
                // every fourth case goes to the widest managers (32 lanes: the deepest minimum-reduction trees) with the interleaved layouts in turn
                std::vector<std::pair<int, int>> widest;
                for (auto &w : wide)
                        if (g_algos[w.first].fams[w.second].lanes >= 32)
                                widest.push_back(w);
                bool to_widest = idx % 4 == 3 && !widest.empty();
                if (to_widest)
                        pr = widest[(idx / 4) % widest.size()];
                int lanes = g_algos[pr.first].fams[pr.second].lanes;
                static const uint32_t masks[10] = { 0x0000ffffu, 0xffff0000u, 0x0f0f0f0fu, 0xf0f0f0f0u, 0x00ff00ffu, 0xff00ff00u, 0x00000f0fu, 0x0000f0f0u, 0x000000ffu, 0x7fffffffu };
                // (the two halves in two of three visits of a pair, the other layouts in turn)
                uint32_t m = idx % 3 == 0 ? 0x0000ffffu : idx % 3 == 1 ? 0xffff0000u : masks[(idx / wide.size()) % 10];
                if (to_widest) {
                        m = masks[2 + (idx / 8) % 8];
                        // every other widest case: giants everywhere except one submission - the only short job meets an all-giant partner at every
                        // level of the minimum reduction it takes part in
                        if ((idx / 4) & 1)
                                m = ~(1u << ((idx / 4) * 7 % 32));
                }
                if (lanes == 16 && (m & 0xffffu) == 0xffffu)
                        m = (idx & 1) ? 0x00ffu : 0xff00u;
                if (lanes == 8 && (m & 0xffu) == 0xffu)
                        m = (idx & 1) ? 0x0fu : 0xf0u;
                uint32_t lm = lanes < 32 ? (1u << lanes) - 1 : 0xffffffffu;
                m &= lm;
                if (m == lm)
                        m &= ~(1u << (lanes / 2));
                if (m == 0)
                        m = 1;
                p.cfg["algo"] = pr.first;
                p.cfg["family"] = pr.second;
                p.cfg["giant"] = 1 + (int64_t) (mix64(seed, 0x91) % (1 << 20));
                p.cfg["giant_mask"] = (int64_t) m;
                p.cfg["giant_at"] = 0;
                p.cfg["clients"] = __builtin_popcount(m) + 2 * lanes + 2;
                p.cfg["faults"] = 0;
                p.cfg["libdata"] = 0;
                // short traffic only, no flushes: every later submit finds all lanes occupied
                for (auto &o : p.ops)
                        if (o.kind != OP_SUBMIT)
                                o.kind = OP_SUBMIT;
                while (p.ops.size() < (size_t) (4 * lanes)) {
                        Op o = p.ops[p.ops.size() % std::max<size_t>(1, p.ops.size())];
                        o.a += 7919;
                        p.ops.push_back(o);
                }
                return p;
        }
};
} // namespace
Sim *make_hashfill_sim() { return new HashFillSim(); }
namespace {
struct HashEdgeSim : HashMgrSim {
        const char *name() const override { return "hashedge"; }
        Plan generate(uint64_t seed, const std::string &, bool, uint64_t idx) override { return generate_edge(seed, idx); }
};
} // namespace
Sim *make_hashedge_sim() { return new HashEdgeSim(); }
namespace {
struct HashJumpSim : HashMgrSim {
        const char *name() const override { return "hashjump"; }
        Plan generate(uint64_t seed, const std::string &, bool, uint64_t idx) override { return generate_jump(seed, idx); }
};
} // namespace
Sim *make_hashjump_sim() { return new HashJumpSim(); }
