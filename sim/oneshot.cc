// oneshot.cc — the "one-shot client": AES key expansion, CBC, XTS and GCM one-shot entry points of
// every family, called with seeded lengths/alignments/placements. It has no functional oracle
// (equality with FIPS-197 / SP 800-38A / IEEE 1619 / SP 800-38D is C02-C04, not claimed); it exists
// so that the environment monitors (C08 memory map, C14 secrets, C19 register file, C20 paired
// replay) also see these entry points. Round-trip consistency is recorded as a run-health probe.
#include "sim.h"
#include <algorithm>

extern "C" {
#include "aes_gcm.h"
#include "aes_cbc.h"
#include "aes_xts.h"
#include "aes_keyexp.h"
#include "isal_crypto_api.h"
}

namespace {

enum { OK_KEYEXP = 1, OK_CBC = 2, OK_XTS = 3, OK_GCM = 4, OK_CBCHUGE = 5 };
static const int KB[3] = { 16, 24, 32 };
static const int NR[3] = { 11, 13, 15 };
static const int BITS[3] = { 128, 192, 256 };

struct OSyms {
        void *keyexp[3][2], *keyexp_enc128[2], *isal_keyexp[3];
        void *cbc_enc[3][2], *cbc_dec[3][3], *isal_cbc_enc[3], *isal_cbc_dec[3];
        void **d_cbc_enc[3], **d_cbc_dec[3], **d_keyexp[3];
        void *xts[2][2][2][3]; // [ks][dec][expanded][family]
        void *isal_xts[2][2][2];
        void **d_xts[2][2][2];
        void *gcm[2][2][2][4]; // [ks][dec][nt][family]
        void *gcm_precomp[2][4];
        void *isal_gcm[2][2][2];
        void **d_gcm[2][2][2];
        void *isal_gcm_pre[2];
        void **d_precomp[2];
};
static OSyms O;
static bool o_loaded = false;
static const char *cbc_enc_f[2] = { "x4", "x8" };
static const char *cbc_dec_f[3] = { "sse", "avx", "vaes_avx512" };
static const char *xts_f[3] = { "sse", "avx", "vaes" };
static const char *gcm_f[4] = { "sse", "avx_gen2", "avx_gen4", "vaes_avx512" };

static void o_load()
{
        if (o_loaded)
                return;
        o_loaded = true;
        for (int k = 0; k < 3; k++) {
                O.keyexp[k][0] = libsym(strfmt("_aes_keyexp_%d_sse", BITS[k]).c_str());
                O.keyexp[k][1] = libsym(strfmt("_aes_keyexp_%d_avx", BITS[k]).c_str());
                O.isal_keyexp[k] = libsym(strfmt("isal_aes_keyexp_%d", BITS[k]).c_str());
                O.d_keyexp[k] = (void **) libsym(strfmt("_aes_keyexp_%d_dispatched", BITS[k]).c_str());
                for (int f = 0; f < 2; f++)
                        O.cbc_enc[k][f] = libsym(strfmt("_aes_cbc_enc_%d_%s", BITS[k], cbc_enc_f[f]).c_str());
                for (int f = 0; f < 3; f++)
                        O.cbc_dec[k][f] = libsym(strfmt("_aes_cbc_dec_%d_%s", BITS[k], cbc_dec_f[f]).c_str());
                O.isal_cbc_enc[k] = libsym(strfmt("isal_aes_cbc_enc_%d", BITS[k]).c_str());
                O.isal_cbc_dec[k] = libsym(strfmt("isal_aes_cbc_dec_%d", BITS[k]).c_str());
                O.d_cbc_enc[k] = (void **) libsym(strfmt("_aes_cbc_enc_%d_dispatched", BITS[k]).c_str());
                O.d_cbc_dec[k] = (void **) libsym(strfmt("_aes_cbc_dec_%d_dispatched", BITS[k]).c_str());
        }
        O.keyexp_enc128[0] = libsym("_aes_keyexp_128_enc_sse");
        O.keyexp_enc128[1] = libsym("_aes_keyexp_128_enc_avx");
        for (int ks = 0; ks < 2; ks++) {
                int bits = ks ? 256 : 128;
                for (int dec = 0; dec < 2; dec++)
                        for (int ex = 0; ex < 2; ex++) {
                                std::string base = strfmt("XTS_AES_%d_%s%s", bits, dec ? "dec" : "enc", ex ? "_expanded_key" : "");
                                for (int f = 0; f < 3; f++)
                                        O.xts[ks][dec][ex][f] = libsym(("_" + base + "_" + xts_f[f]).c_str());
                                O.isal_xts[ks][dec][ex] = libsym(strfmt("isal_aes_xts_%s_%d%s", dec ? "dec" : "enc", bits, ex ? "_expanded_key" : "").c_str());
                                O.d_xts[ks][dec][ex] = (void **) libsym(("_" + base + "_dispatched").c_str());
                        }
                for (int dec = 0; dec < 2; dec++)
                        for (int nt = 0; nt < 2; nt++) {
                                for (int f = 0; f < 4; f++)
                                        O.gcm[ks][dec][nt][f] = libsym(strfmt("_aes_gcm_%s_%d_%s%s", dec ? "dec" : "enc", bits, gcm_f[f], nt ? "_nt" : "").c_str());
                                O.isal_gcm[ks][dec][nt] = libsym(strfmt("isal_aes_gcm_%s_%d%s", dec ? "dec" : "enc", bits, nt ? "_nt" : "").c_str());
                                O.d_gcm[ks][dec][nt] = (void **) libsym(strfmt("_aes_gcm_%s_%d%s_dispatched", dec ? "dec" : "enc", bits, nt ? "_nt" : "").c_str());
                        }
                for (int f = 0; f < 4; f++)
                        O.gcm_precomp[ks][f] = libsym(strfmt("_aes_gcm_precomp_%d_%s", bits, gcm_f[f]).c_str());
                O.isal_gcm_pre[ks] = libsym(strfmt("isal_aes_gcm_pre_%d", bits).c_str());
                O.d_precomp[ks] = (void **) libsym(strfmt("_aes_gcm_precomp_%d_dispatched", bits).c_str());
        }
}

struct Slot {
        std::vector<std::pair<void **, void *>> saved;
        void set(void **slot, void *v)
        {
                saved.emplace_back(slot, *slot);
                *slot = v;
        }
        ~Slot()
        {
                for (size_t i = saved.size(); i-- > 0;)
                        *saved[i].first = saved[i].second;
        }
};

struct OneShotSim : Sim {
        const char *name() const override { return "oneshot"; }
        void process_init() override { o_load(); }
        std::vector<std::string> real_components() const override
        {
                return { "AES key expansion (sse, avx), CBC encrypt (x4, x8) and decrypt (sse, avx, vaes_avx512), XTS raw/expanded enc/dec (sse, avx, vaes), "
                         "GCM one-shot and precompute (sse, avx_gen2, avx_gen4, vaes_avx512; regular and _nt), and their isal_* wrappers" };
        }
        std::vector<std::string> stub_components() const override
        {
                return { "caller (seeded argument classes)", "memory map", "register file / dead stack at call entry", "dispatch binding set to the family under test" };
        }

        Plan generate(uint64_t seed, const std::string &, bool thorough, uint64_t) override
        {
                Rng g(seed, "plan");
                Plan p;
                int n = 4 + (int) g.below(thorough ? 40 : 20);
                for (int i = 0; i < n; i++) {
                        Op o;
                        o.kind = 1 + (int) g.below(4);
                        o.a = (int64_t) g.below(1 << 20); // variant selector
                        o.b = (int64_t) g.below(1 << 20); // length class/value
                        o.c = (int64_t) g.below(1 << 20); // content / key seed
                        o.d = (int64_t) g.below(1 << 20); // placement
                        p.ops.push_back(o);
                }
                return p;
        }
        std::string render(const Plan &p) const override
        {
                static const char *kn[5] = { "?", "KEYEXP", "CBC", "XTS", "GCM" };
                std::string s = "ops=[";
                for (size_t i = 0; i < p.ops.size() && i < 24; i++)
                        s += strfmt("%s%s(%lld,%lld)", i ? " " : "", kn[p.ops[i].kind % 5], (long long) p.ops[i].a, (long long) p.ops[i].b);
                return s + "]";
        }

        static size_t len_class(int kind, int64_t b)
        {
                uint64_t v = (uint64_t) b;
                switch (kind) {
                case OK_XTS:
                        switch (v % 5) {
                        case 0:
                        case 1:
                        case 2: return 16 + (v >> 3) % (16 * 17);
                        case 3: return 16 + (v >> 3) % 4096;
                        default: return 16 + (v >> 3) % 65536;
                        }
                case OK_CBC:
                        if ((v & 0x1f0000) == 0) // 1 in 32: an empty message (0 is a multiple of 16)
                                return 0;
                        switch (v % 4) {
                        case 0:
                        case 1: return 16 * (1 + (v >> 2) % 40);
                        case 2: return 16 * (1 + (v >> 2) % 256);
                        default: return 16 * (1 + (v >> 2) % 4096);
                        }
                default:
                        switch (v % 5) {
                        case 0: return (v >> 3) % 17;
                        case 1:
                        case 2: return (v >> 3) % (48 * 16 + 18);
                        case 3: return (v >> 3) % 4096;
                        default: return (v >> 3) % 65536;
                        }
                }
        }

        void expand(Env &e, int k, int kf, uint8_t *key, uint8_t *enc, uint8_t *dec)
        {
                e.call(strfmt("_aes_keyexp_%d_%s", BITS[k], kf ? "avx" : "sse").c_str(), O.keyexp[k][kf], { U(key), U(enc), U(dec) });
        }

        void op_keyexp(const Op &o, Env &e, RunResult &r)
        {
                struct LS {
                        Env &e;
                        bool sv;
                        ~LS() { e.legacy_api = sv; }
                } ls{ e, e.legacy_api };
                e.legacy_api = !g_force_family_api && ((o.a >> 15) & 3) == 0; // a quarter of the public-API calls use the deprecated twins
                int k = (int) (o.a % 3), kf = (int) ((o.a >> 2) & 1), api = (int) ((o.a >> 3) % 3);
                if (g_force_family_api && api == 1)
                        api = 0;
                uint8_t *key = e.mem.alloc(KB[k], 1, (Place) (o.d % 3), nullptr, "raw key", R_INPUT, (size_t) ((o.d >> 2) % 64));
                Rng g((uint64_t) o.c, "key");
                g.fill(key, KB[k]);
                e.mem.snapshot(key);
                uint8_t *enc = e.mem.alloc(16 * NR[k], 16, (Place) ((o.d >> 8) % 3), &e.hidden, "enc schedule out", R_OUTPUT, 16 * (size_t) ((o.d >> 10) % 4));
                uint8_t *dec = e.mem.alloc(16 * NR[k], 16, (Place) ((o.d >> 12) % 3), &e.hidden, "dec schedule out", R_OUTPUT, 16 * (size_t) ((o.d >> 14) % 4));
                e.secrets.clear();
                e.secrets.add_range(key, KB[k] >= 32 ? 32 : 16, "the raw key");
                e.scan_secrets = true;
                std::string nm;
                if (api == 0) {
                        nm = strfmt("_aes_keyexp_%d_%s", BITS[k], kf ? "avx" : "sse");
                        e.call(nm.c_str(), O.keyexp[k][kf], { U(key), U(enc), U(dec) });
                } else if (api == 1) {
                        Slot sg;
                        sg.set(O.d_keyexp[k], O.keyexp[k][kf]);
                        nm = strfmt("isal_aes_keyexp_%d", BITS[k]);
                        uint64_t rc = e.call(nm.c_str(), O.isal_keyexp[k], { U(key), U(enc), U(dec) });
                        e.obs(0xa00, (uint32_t) rc);
                } else {
                        // encryption-only expansion (128-bit)
                        nm = strfmt("_aes_keyexp_128_enc_%s", kf ? "avx" : "sse");
                        uint8_t *k128 = key;
                        if (k != 0) {
                                e.scan_secrets = false;
                                return;
                        }
                        e.call(nm.c_str(), O.keyexp_enc128[kf], { U(k128), U(enc) });
                }
                e.obs_bytes(0xa01, enc, 16 * NR[k]);
                if (api != 2)
                        e.obs_bytes(0xa02, dec, 16 * NR[k]);
                e.check_buf(key, nm.c_str());
                e.check_buf(enc, nm.c_str());
                e.check_buf(dec, nm.c_str());
                // second scan with the full needle set (schedules now known): repeat the call into fresh outputs
                uint8_t *enc2 = e.mem.alloc(16 * NR[k], 16, END_FLUSH, &e.hidden, "enc schedule out (2)", R_OUTPUT);
                uint8_t *dec2 = e.mem.alloc(16 * NR[k], 16, END_FLUSH, &e.hidden, "dec schedule out (2)", R_OUTPUT);
                if (api != 2) {
                        e.secrets.clear();
                        e.secrets.add_range(key, KB[k] >= 32 ? 32 : 16, "the raw key");
                        e.secrets.add_range(enc, 16 * NR[k], "an encryption round key");
                        e.secrets.add_range(dec, 16 * NR[k], "a decryption round key");
                        e.scan_secrets = true;
                        e.call(strfmt("_aes_keyexp_%d_%s", BITS[k], kf ? "avx" : "sse").c_str(), O.keyexp[k][kf], { U(key), U(enc2), U(dec2) });
                        if (memcmp(enc, enc2, 16 * NR[k]) || memcmp(dec, dec2, 16 * NR[k]))
                                r.cov.hit("health_keyexp_not_repeatable");
                }
                r.cov.state(mix64(0xe0 + k * 2 + kf, api));
                r.cov.hit("oneshot_keyexp_calls");
                if (((o.a >> 9) & 7) == 0) {
                        static void *ver = libsym("isal_crypto_get_version", false), *vers = libsym("isal_crypto_get_version_str", false);
                        if (ver)
                                e.obs(0xa03, e.call("isal_crypto_get_version", ver, {}));
                        if (vers)
                                e.call("isal_crypto_get_version_str", vers, {});
                }
        }

        void op_cbc(const Op &o, Env &e, RunResult &r)
        {
                struct LS {
                        Env &e;
                        bool sv;
                        ~LS() { e.legacy_api = sv; }
                } ls{ e, e.legacy_api };
                e.legacy_api = !g_force_family_api && ((o.a >> 15) & 3) == 0; // a quarter of the public-API calls use the deprecated twins
                int k = (int) (o.a % 3), ef = (int) ((o.a >> 2) % 2), df = (int) ((o.a >> 3) % 3), api = g_force_family_api ? 0 : (int) ((o.a >> 5) % 2), inplace = (int) ((o.a >> 6) % 2);
                size_t len = len_class(OK_CBC, o.b);
                uint8_t *key = e.mem.alloc(KB[k], 1, END_FLUSH, nullptr, "raw key", R_INPUT);
                Rng g((uint64_t) o.c, "cbc");
                g.fill(key, KB[k]);
                uint8_t *enc = e.mem.alloc(16 * 15, 16, START_FLUSH, &e.hidden, "enc schedule", R_OBJECT);
                uint8_t *dec = e.mem.alloc(16 * 15, 16, START_FLUSH, &e.hidden, "dec schedule", R_OBJECT);
                static void *precomp = libsym("aes_cbc_precomp", false);
                if (precomp && ((o.c >> 4) & 3) == 0) {
                        // deprecated helper: fills a struct isal_cbc_key_data {enc_keys[240], dec_keys[240]}
                        uint8_t *kd = e.mem.alloc(sizeof(struct isal_cbc_key_data), 16, START_FLUSH, &e.hidden, "cbc key data", R_OBJECT);
                        e.secrets.clear();
                        e.secrets.add_range(key, KB[k] >= 32 ? 32 : 16, "the raw key");
                        e.scan_secrets = true;
                        uint64_t rc = e.call("aes_cbc_precomp", precomp, { U(key), (uint64_t) KB[k], U(kd) });
                        e.obs(0xa14, (uint32_t) rc);
                        e.check_buf(kd, "aes_cbc_precomp");
                        enc = kd;
                        dec = kd + ISAL_CBC_MAX_KEYS_SIZE;
                        e.mem.snapshot(kd);
                } else {
                        expand(e, k, (int) (o.c & 1), key, enc, dec);
                        e.mem.snapshot(enc);
                        e.mem.snapshot(dec);
                }
                uint8_t *iv = e.mem.alloc(16, 16, (Place) (o.d % 3), nullptr, "cbc iv", R_INPUT, 16 * (size_t) ((o.d >> 2) % 4));
                g.fill(iv, 16);
                e.mem.snapshot(iv);
                std::vector<uint8_t> pt(len);
                g.fill(pt.data(), len);
                uint8_t *in = e.mem.alloc(len, 1, (Place) ((o.d >> 4) % 3), nullptr, inplace ? "cbc in-place buffer" : "cbc input", inplace ? R_OUTPUT : R_INPUT,
                                          (size_t) ((o.d >> 6) % 64));
                memcpy(in, pt.data(), len);
                uint8_t *out = inplace ? in : e.mem.alloc(len, 1, (Place) ((o.d >> 12) % 3), &e.hidden, "cbc output", R_OUTPUT, (size_t) ((o.d >> 14) % 64));
                if (!inplace)
                        e.mem.snapshot(in);
                auto secrets = [&]() {
                        e.secrets.clear();
                        e.secrets.add_range(key, KB[k] >= 32 ? 32 : 16, "the raw key");
                        e.secrets.add_range(enc, 16 * NR[k], "an encryption round key");
                        e.secrets.add_range(dec, 16 * NR[k], "a decryption round key");
                        e.scan_secrets = true;
                };
                secrets();
                std::string nm;
                if (api) {
                        Slot sg;
                        sg.set(O.d_cbc_enc[k], O.cbc_enc[k][ef]);
                        nm = strfmt("isal_aes_cbc_enc_%d", BITS[k]);
                        uint64_t rc = e.call(nm.c_str(), O.isal_cbc_enc[k], { U(in), U(iv), U(enc), U(out), len });
                        e.obs(0xa10, (uint32_t) rc);
                } else {
                        nm = strfmt("_aes_cbc_enc_%d_%s", BITS[k], cbc_enc_f[ef]);
                        e.call(nm.c_str(), O.cbc_enc[k][ef], { U(in), U(iv), U(enc), U(out), len });
                }
                e.obs_bytes(0xa11, out, len);
                e.check_buf(out, nm.c_str());
                if (!inplace)
                        e.check_buf(in, nm.c_str());
                e.check_buf(iv, nm.c_str());
                e.check_buf(enc, nm.c_str());
                // decrypt back
                std::vector<uint8_t> ct(out, out + len);
                uint8_t *in2 = e.mem.alloc(len, 1, (Place) ((o.d >> 8) % 3), nullptr, inplace ? "cbc in-place buffer (dec)" : "cbc input (dec)", inplace ? R_OUTPUT : R_INPUT,
                                           (size_t) ((o.d >> 10) % 64));
                memcpy(in2, ct.data(), len);
                uint8_t *out2 = inplace ? in2 : e.mem.alloc(len, 1, (Place) ((o.d >> 16) % 3), &e.hidden, "cbc output (dec)", R_OUTPUT, (size_t) ((o.d >> 3) % 64));
                if (!inplace)
                        e.mem.snapshot(in2);
                secrets();
                if (api) {
                        Slot sg;
                        sg.set(O.d_cbc_dec[k], O.cbc_dec[k][df]);
                        nm = strfmt("isal_aes_cbc_dec_%d", BITS[k]);
                        uint64_t rc = e.call(nm.c_str(), O.isal_cbc_dec[k], { U(in2), U(iv), U(dec), U(out2), len });
                        e.obs(0xa12, (uint32_t) rc);
                } else {
                        nm = strfmt("_aes_cbc_dec_%d_%s", BITS[k], cbc_dec_f[df]);
                        e.call(nm.c_str(), O.cbc_dec[k][df], { U(in2), U(iv), U(dec), U(out2), len });
                }
                e.obs_bytes(0xa13, out2, len);
                e.check_buf(out2, nm.c_str());
                if (!inplace)
                        e.check_buf(in2, nm.c_str());
                e.check_buf(iv, nm.c_str());
                e.check_buf(dec, nm.c_str());
                if (memcmp(out2, pt.data(), len) != 0)
                        r.cov.hit("health_cbc_roundtrip_mismatch");
                r.cov.state(mix64(0xc0 + k * 8 + ef * 4 + df, mix64(len % 128, (uint64_t) inplace * 2 + api)));
                r.cov.hit("oneshot_cbc_calls", 2);
        }

        void op_xts(const Op &o, Env &e, RunResult &r)
        {
                struct LS {
                        Env &e;
                        bool sv;
                        ~LS() { e.legacy_api = sv; }
                } ls{ e, e.legacy_api };
                e.legacy_api = !g_force_family_api && ((o.a >> 15) & 3) == 0; // a quarter of the public-API calls use the deprecated twins
                int ks = (int) (o.a % 2), f = (int) ((o.a >> 1) % 3), ex = (int) ((o.a >> 3) % 2), api = g_force_family_api ? 0 : (int) ((o.a >> 4) % 2), inplace = (int) ((o.a >> 5) % 2);
                int k = ks ? 2 : 0;
                size_t len = len_class(OK_XTS, o.b);
                // 1 call in 32: a sector shorter than one block (outside the algorithm's domain). The isal_ wrappers refuse it; the family
                // symbols and the deprecated twins return without processing - also an exit path of an AES entry point (C14/C19/C08 apply)
                const bool undersized = ((o.b >> 12) & 31) == 7;
                if (undersized)
                        len = (size_t) ((o.b >> 3) % 16);
                Rng g((uint64_t) o.c, "xts");
                uint8_t *key1 = e.mem.alloc(KB[k], 1, (Place) (o.d % 3), nullptr, "xts key1", R_INPUT, (size_t) ((o.d >> 2) % 16));
                uint8_t *key2 = e.mem.alloc(KB[k], 1, (Place) ((o.d >> 6) % 3), nullptr, "xts key2", R_INPUT, (size_t) ((o.d >> 8) % 16));
                g.fill(key1, KB[k]);
                g.fill(key2, KB[k]);
                uint8_t *tweak = e.mem.alloc(16, 1, (Place) ((o.d >> 12) % 3), nullptr, "xts tweak", R_INPUT, (size_t) ((o.d >> 14) % 16));
                g.fill(tweak, 16);
                uint8_t *e1 = e.mem.alloc(16 * 15, 16, START_FLUSH, &e.hidden, "key1 enc schedule", R_OBJECT);
                uint8_t *d1 = e.mem.alloc(16 * 15, 16, START_FLUSH, &e.hidden, "key1 dec schedule", R_OBJECT);
                uint8_t *e2 = e.mem.alloc(16 * 15, 16, START_FLUSH, &e.hidden, "key2 enc schedule", R_OBJECT);
                uint8_t *d2 = e.mem.alloc(16 * 15, 16, START_FLUSH, &e.hidden, "key2 dec schedule", R_OBJECT);
                expand(e, k, 0, key1, e1, d1);
                expand(e, k, 1, key2, e2, d2);
                // encrypted tweak E(key2, tweak): one CBC block with zero IV through the library's own encrypt (needle only)
                uint8_t *ziv = e.mem.alloc(16, 16, START_FLUSH, nullptr, "zero iv", R_INPUT);
                uint8_t *etw = e.mem.alloc(16, 16, START_FLUSH, &e.hidden, "encrypted tweak", R_OUTPUT);
                uint8_t *twc = e.mem.alloc(16, 16, START_FLUSH, nullptr, "tweak copy", R_INPUT);
                memcpy(twc, tweak, 16);
                e.call(strfmt("_aes_cbc_enc_%d_x4", BITS[k]).c_str(), O.cbc_enc[k][0], { U(twc), U(ziv), U(e2), U(etw), 16 });
                for (uint8_t *b : { key1, key2, tweak, e1, d1, e2, d2 })
                        e.mem.snapshot(b);
                std::vector<uint8_t> pt(len);
                g.fill(pt.data(), len);
                auto secrets = [&]() {
                        e.secrets.clear();
                        e.secrets.add_range(key1, KB[k] >= 32 ? 32 : 16, "raw key1");
                        e.secrets.add_range(key2, KB[k] >= 32 ? 32 : 16, "raw key2");
                        e.secrets.add_range(e1, 16 * NR[k], "a round key of key1");
                        e.secrets.add_range(d1, 16 * NR[k], "a decryption round key of key1");
                        e.secrets.add_range(e2, 16 * NR[k], "a round key of key2");
                        e.secrets.add(etw, "the encrypted XTS tweak");
                        e.scan_secrets = true;
                };
                std::vector<uint8_t> ct;
                for (int dec = 0; dec < 2; dec++) {
                        const std::vector<uint8_t> &src = dec ? ct : pt;
                        uint8_t *in = e.mem.alloc(len, 1, (Place) ((o.d >> (4 + dec)) % 3), nullptr, inplace ? "xts in-place buffer" : "xts input", inplace ? R_OUTPUT : R_INPUT,
                                                  (size_t) ((o.d >> (7 + dec)) % 64));
                        memcpy(in, src.data(), len);
                        uint8_t *out = inplace ? in : e.mem.alloc(len, 1, (Place) ((o.d >> (10 + dec)) % 3), &e.hidden, "xts output", R_OUTPUT, (size_t) ((o.d >> (13 + dec)) % 64));
                        if (!inplace)
                                e.mem.snapshot(in);
                        uint8_t *a2 = ex ? e2 : key2;
                        uint8_t *a1 = ex ? (dec ? d1 : e1) : key1;
                        secrets();
                        std::string nm;
                        if (api) {
                                Slot sg;
                                sg.set(O.d_xts[ks][dec][ex], O.xts[ks][dec][ex][f]);
                                nm = strfmt("isal_aes_xts_%s_%d%s", dec ? "dec" : "enc", BITS[k], ex ? "_expanded_key" : "");
                                uint64_t rc = e.call(nm.c_str(), O.isal_xts[ks][dec][ex], { U(a2), U(a1), U(tweak), len, U(in), U(out) });
                                e.obs(0xa20, (uint32_t) rc);
                        } else {
                                nm = strfmt("_XTS_AES_%d_%s%s_%s", BITS[k], dec ? "dec" : "enc", ex ? "_expanded_key" : "", xts_f[f]);
                                e.call(nm.c_str(), O.xts[ks][dec][ex][f], { U(a2), U(a1), U(tweak), len, U(in), U(out) });
                        }
                        if (!undersized)
                                e.obs_bytes(0xa21 + dec, out, len); // nothing is written for an undersized sector: the bytes are the caller's
                        else
                                r.cov.hit("probe_xts_sector_shorter_than_a_block");
                        e.check_buf(out, nm.c_str());
                        if (!inplace)
                                e.check_buf(in, nm.c_str());
                        for (uint8_t *b : { key1, key2, tweak, e1, d1, e2 })
                                e.check_buf(b, nm.c_str());
                        if (!dec)
                                ct.assign(out, out + len);
                        else if (!undersized && memcmp(out, pt.data(), len) != 0)
                                r.cov.hit("health_xts_roundtrip_mismatch");
                }
                r.cov.state(mix64(0xd0 + ks * 16 + f * 4 + ex * 2 + api, mix64(len % 256 < 16 * 17 ? len % 256 : 999, (uint64_t) inplace)));
                r.cov.hit("oneshot_xts_calls", 2);
        }

        void op_gcm(const Op &o, Env &e, RunResult &r)
        {
                struct LS {
                        Env &e;
                        bool sv;
                        ~LS() { e.legacy_api = sv; }
                } ls{ e, e.legacy_api };
                e.legacy_api = !g_force_family_api && ((o.a >> 15) & 3) == 0; // a quarter of the public-API calls use the deprecated twins
                int ks = (int) (o.a % 2), f = (int) ((o.a >> 1) % 4), nt = (int) ((o.a >> 3) % 4 == 0), api = g_force_family_api ? 0 : (int) ((o.a >> 5) % 2), inplace = (int) ((o.a >> 6) % 2);
                int k = ks ? 2 : 0;
                int bits = BITS[k];
                size_t len = len_class(OK_GCM, o.b);
                if (nt)
                        inplace = 0;
                int tag_len = 8 + 4 * (int) ((o.a >> 8) % 3);
                size_t aad_len = gcm_aad_len_class(mix64((uint64_t) o.a >> 10, (uint64_t) o.b >> 5));
                Rng g((uint64_t) o.c, "gcm");
                uint8_t *key = e.mem.alloc(KB[k], 1, (Place) (o.d % 3), nullptr, "raw key", R_INPUT, (size_t) ((o.d >> 2) % 16));
                g.fill(key, KB[k]);
                e.mem.snapshot(key);
                uint8_t *kd = e.mem.alloc(sizeof(struct isal_gcm_key_data), 16, (Place) ((o.d >> 6) % 3), &e.hidden, "gcm key data", R_OBJECT, 16 * (size_t) ((o.d >> 8) % 4));
                uint8_t *dsched = e.mem.alloc(16 * 15, 16, END_FLUSH, &e.hidden, "dec schedule out", R_OUTPUT);
                e.secrets.clear();
                e.secrets.add_range(key, KB[k] >= 32 ? 32 : 16, "the raw key");
                e.scan_secrets = true;
                if (api) {
                        Slot sg;
                        sg.set(O.d_keyexp[k], O.keyexp[k][(o.c >> 3) & 1]);
                        sg.set(O.d_precomp[ks], O.gcm_precomp[ks][f]);
                        uint64_t rc = e.call(strfmt("isal_aes_gcm_pre_%d", bits).c_str(), O.isal_gcm_pre[ks], { U(key), U(kd) });
                        e.obs(0xa30, (uint32_t) rc);
                        e.scan_secrets = false;
                        e.call(strfmt("_aes_keyexp_%d_sse", bits).c_str(), O.keyexp[k][0], { U(key), U(e.mem.alloc(16 * 15, 16, END_FLUSH, &e.hidden, "enc schedule out", R_OUTPUT)), U(dsched) });
                } else {
                        e.call(strfmt("_aes_keyexp_%d_%s", bits, ((o.c >> 3) & 1) ? "avx" : "sse").c_str(), O.keyexp[k][(o.c >> 3) & 1], { U(key), U(kd), U(dsched) });
                        e.secrets.clear();
                        e.secrets.add_range(key, KB[k] >= 32 ? 32 : 16, "the raw key");
                        e.secrets.add_range(kd, 16 * NR[k], "an encryption round key");
                        e.scan_secrets = true;
                        e.call(strfmt("_aes_gcm_precomp_%d_%s", bits, gcm_f[f]).c_str(), O.gcm_precomp[ks][f], { U(kd) });
                }
                e.check_buf(kd, "gcm pre");
                e.check_buf(key, "gcm pre");
                e.mem.snapshot(kd);
                uint8_t *iv = e.mem.alloc(12, 1, (Place) ((o.d >> 10) % 2), nullptr, "gcm iv", R_INPUT);
                g.fill(iv, 12);
                e.mem.snapshot(iv);
                uint8_t *aad = e.mem.alloc(aad_len, 1, (Place) ((o.d >> 11) % 2), nullptr, "gcm aad", R_INPUT);
                g.fill(aad, aad_len);
                e.mem.snapshot(aad);
                std::vector<uint8_t> pt(len), ct, tag0;
                g.fill(pt.data(), len);
                size_t al = nt ? 64 : 1;
                auto secrets = [&]() {
                        e.secrets.clear();
                        e.secrets.add_range(key, KB[k] >= 32 ? 32 : 16, "the raw key");
                        e.secrets.add_range(kd, 16 * NR[k], "an encryption round key");
                        e.secrets.add_range(dsched, 16 * NR[k], "a decryption round key");
                        size_t hk = f == 3 ? sizeof(struct isal_gcm_key_data) - 16 * 15 : 16 * 16;
                        e.secrets.add_range(kd + 16 * 15, hk, "the GHASH key or one of its powers");
                        e.scan_secrets = true;
                };
                for (int dec = 0; dec < 2; dec++) {
                        const std::vector<uint8_t> &src = dec ? ct : pt;
                        uint8_t *ctx = e.mem.alloc(sizeof(struct isal_gcm_context_data), 8, (Place) ((o.d >> (12 + dec)) % 3), &e.hidden, "gcm context", R_OBJECT, 8 * (size_t) ((o.d >> 14) % 8));
                        uint8_t *in = e.mem.alloc(len, al, (Place) ((o.d >> (3 + dec)) % 3), nullptr, inplace ? "gcm in-place buffer" : "gcm input", inplace ? R_OUTPUT : R_INPUT,
                                                  nt ? 64 : (size_t) ((o.d >> (5 + dec)) % 64));
                        if (len)
                                memcpy(in, src.data(), len);
                        uint8_t *out = inplace ? in : e.mem.alloc(len, al, (Place) ((o.d >> (15 + dec)) % 3), &e.hidden, "gcm output", R_OUTPUT, nt ? 64 : (size_t) ((o.d >> (9 + dec)) % 64));
                        uint8_t *tag = e.mem.alloc(tag_len, 1, (Place) ((o.d >> (17 + dec)) % 2), &e.hidden, "gcm tag", R_OUTPUT);
                        if (!inplace)
                                e.mem.snapshot(in);
                        secrets();
                        std::string nm;
                        if (api) {
                                Slot sg;
                                sg.set(O.d_gcm[ks][dec][nt], O.gcm[ks][dec][nt][f]);
                                nm = strfmt("isal_aes_gcm_%s_%d%s", dec ? "dec" : "enc", bits, nt ? "_nt" : "");
                                uint64_t rc = e.call(nm.c_str(), O.isal_gcm[ks][dec][nt],
                                                     { U(kd), U(ctx), U(out), U(in), len, U(iv), U(aad), aad_len, U(tag), (uint64_t) tag_len });
                                e.obs(0xa32, (uint32_t) rc);
                        } else {
                                nm = strfmt("_aes_gcm_%s_%d_%s%s", dec ? "dec" : "enc", bits, gcm_f[f], nt ? "_nt" : "");
                                e.call(nm.c_str(), O.gcm[ks][dec][nt][f], { U(kd), U(ctx), U(out), U(in), len, U(iv), U(aad), aad_len, U(tag), (uint64_t) tag_len });
                        }
                        e.obs_bytes(0xa33 + dec, out, len);
                        e.obs_bytes(0xa35 + dec, tag, tag_len);
                        for (uint8_t *b : { out, tag, ctx, kd, iv, aad })
                                e.check_buf(b, nm.c_str());
                        if (!inplace)
                                e.check_buf(in, nm.c_str());
                        if (!dec) {
                                ct.assign(out, out + len);
                                tag0.assign(tag, tag + tag_len);
                        } else {
                                if (memcmp(out, pt.data(), len) != 0 || memcmp(tag, tag0.data(), tag_len) != 0)
                                        r.cov.hit("health_gcm_roundtrip_mismatch");
                        }
                }
                r.cov.state(mix64(0xb0 + ks * 16 + f * 4 + nt * 2 + api, mix64(len % 64, (uint64_t) inplace * 4 + (uint64_t) (tag_len / 4 - 2))));
                r.cov.hit("oneshot_gcm_calls", 2);
        }

        // One CBC call of 2^32 + 16k bytes: ciphertext / plaintext read from the aliased read-only window, output written through the aliased
        // writable window whose single 2 MiB period is prefilled from the hidden stream. After the call the period holds the last bytes written
        // at each offset, a pure function of the complete output: the paired execution (other prefill, other registers) must observe the same.
        void op_cbc_huge(const Op &o, Env &e, RunResult &r)
        {
                int k = (int) (o.a % 3), dir_enc = (int) ((o.a >> 8) & 1), api = g_force_family_api ? 0 : (int) ((o.a >> 5) % 2);
                int ef = (int) ((o.a >> 2) & 1), df = (int) (((o.a >> 3) & 3) % 3);
                uint64_t blocks = (o.b & 3) ? (uint64_t) ((o.b >> 2) % 8) : (uint64_t) ((o.b >> 2) % (1 << 15)); // most cases: the length modulo 2^32 is below 8 blocks
                uint64_t len = (1ull << 32) + 16 * blocks;
                size_t per = huge_period();
                const uint8_t *in = huge_in_window() + (size_t) (o.d % 4096);
                uint8_t *out = huge_out_window() + (size_t) ((o.d >> 12) % 251);
                uint8_t *pat = huge_out_pattern();
                e.hidden.fill(pat, per);
                uint8_t *key = e.mem.alloc(KB[k], 1, END_FLUSH, nullptr, "raw key", R_INPUT);
                Rng g((uint64_t) o.c, "cbc");
                g.fill(key, KB[k]);
                uint8_t *enc = e.mem.alloc(16 * 15, 16, START_FLUSH, &e.hidden, "enc schedule", R_OBJECT);
                uint8_t *dec = e.mem.alloc(16 * 15, 16, START_FLUSH, &e.hidden, "dec schedule", R_OBJECT);
                expand(e, k, (int) (o.c & 1), key, enc, dec);
                e.mem.snapshot(enc);
                e.mem.snapshot(dec);
                uint8_t *iv = e.mem.alloc(16, 16, (Place) (o.d % 3), nullptr, "cbc iv", R_INPUT, 16 * (size_t) ((o.d >> 2) % 4));
                g.fill(iv, 16);
                e.mem.snapshot(iv);
                e.secrets.clear();
                e.secrets.add_range(key, KB[k] >= 32 ? 32 : 16, "the raw key");
                e.secrets.add_range(enc, 16 * NR[k], "an encryption round key");
                e.secrets.add_range(dec, 16 * NR[k], "a decryption round key");
                e.scan_secrets = true;
                std::string nm;
                const char *ds = dir_enc ? "enc" : "dec";
                void *fn = dir_enc ? O.cbc_enc[k][ef] : O.cbc_dec[k][df];
                const char *fam = dir_enc ? cbc_enc_f[ef] : cbc_dec_f[df];
                if (api) {
                        Slot sg;
                        sg.set(dir_enc ? O.d_cbc_enc[k] : O.d_cbc_dec[k], fn);
                        nm = strfmt("isal_aes_cbc_%s_%d", ds, BITS[k]);
                        uint64_t rc = e.call(nm.c_str(), dir_enc ? O.isal_cbc_enc[k] : O.isal_cbc_dec[k], { U(in), U(iv), U(dir_enc ? enc : dec), U(out), len });
                        e.obs(0xa18, (uint32_t) rc);
                } else {
                        nm = strfmt("_aes_cbc_%s_%d_%s", ds, BITS[k], fam);
                        e.call(nm.c_str(), fn, { U(in), U(iv), U(dir_enc ? enc : dec), U(out), len });
                }
                e.obs(0xa19, hash_bytes(pat, per));
                e.check_buf(iv, nm.c_str());
                e.check_buf(enc, nm.c_str());
                e.check_buf(dec, nm.c_str());
                r.cov.hit(strfmt("probe_cbc_message_ge_2^32_%s_%s%s", ds, fam, blocks < 8 ? "_len_mod_2^32_below_8_blocks" : ""));
                r.cov.state(mix64(0xc8 + k * 8 + ef * 4 + df, mix64(blocks < 8 ? blocks : 8, (uint64_t) dir_enc * 2 + api)));
                r.cov.hit("oneshot_cbc_calls", 1);
        }

        void execute(const Plan &p, Env &e, RunResult &r) override
        {
                for (size_t i = 0; i < p.ops.size(); i++) {
                        e.op_index = (int) i;
                        const Op &o = p.ops[i];
                        Mem::Mark mk = e.mem.mark();
                        switch (o.kind) {
                        case OK_KEYEXP: op_keyexp(o, e, r); break;
                        case OK_CBC: op_cbc(o, e, r); break;
                        case OK_XTS: op_xts(o, e, r); break;
                        case OK_GCM: op_gcm(o, e, r); break;
                        case OK_CBCHUGE: op_cbc_huge(o, e, r); break;
                        }
                        e.check_mem_all("end of op");
                        e.mem.release(mk);
                }
        }
};

} // namespace

Sim *make_oneshot_sim() { return new OneShotSim(); }
namespace {
// quota sim: single CBC calls of 2^32 bytes and more; the decrypt families rotate with the run index, one case in eight encrypts
struct CbcHugeSim : OneShotSim {
        const char *name() const override { return "cbchuge"; }
        Plan generate(uint64_t seed, const std::string &, bool, uint64_t idx) override
        {
                Rng g(seed, "plan");
                Plan p;
                Op o;
                o.kind = OK_CBCHUGE;
                uint64_t a = g.below(1 << 20);
                bool encrypt = idx % 8 == 7;
                a = (a & ~(uint64_t) 0x118) | ((uint64_t) encrypt << 8) | ((uint64_t) ((idx + 1) % 3) << 3); // decrypt family: avx, vaes, sse, avx, ...
                o.a = (int64_t) a;
                o.b = (int64_t) g.below(1 << 20);
                if (idx % 4 != 3)
                        o.b |= 1; // three cases in four: the low 32 bits of the length are below 8 blocks
                o.c = (int64_t) g.below(1 << 20);
                o.d = (int64_t) g.below(1 << 20);
                p.ops.push_back(o);
                return p;
        }
        std::string render(const Plan &p) const override
        {
                const Op &o = p.ops.empty() ? Op() : p.ops[0];
                return strfmt("CBCHUGE(%s, family selector %lld, length 2^32+16*%lld)", ((o.a >> 8) & 1) ? "enc" : "dec", (long long) (((o.a >> 3) & 3) % 3),
                              (long long) ((o.b & 3) ? (o.b >> 2) % 8 : (o.b >> 2) % (1 << 15)));
        }
};
} // namespace
Sim *make_cbchuge_sim() { return new CbcHugeSim(); }
