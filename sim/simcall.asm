; simcall.asm — CpuLayer trampoline and the hook stubs the instrumented library calls.
;
;   uint64_t simcall(SimFrame *f)
;       Runs f->fn on a dedicated call stack with a poisoned register file and captures the
;       complete register file afterwards.  Offsets must match struct SimFrame in cpu.h.
;
;   isal_verif_cpuid / isal_verif_xgetbv / isal_verif_sched_point
;       Stubs with the register contract of the instructions they replace: every register
;       (general, vector, mask) and RFLAGS preserved, except the architectural outputs.

default rel
bits 64

%define F_FN        0
%define F_ARGS      8        ; rdi rsi rdx rcx r8 r9
%define F_IN_RAX    56
%define F_IN_R10    64
%define F_IN_R11    72
%define F_IN_FLAGS  80
%define F_IN_CALLEE 88       ; rbx rbp r12 r13 r14 r15
%define F_CALL_RSP  136
%define F_HOST_RSP  144
%define F_OUT_RAX   152
%define F_OUT_RSP   160
%define F_OUT_CALLEE 168     ; rbx rbp r12 r13 r14 r15
%define F_OUT_FLAGS 216
%define F_OUT_MXCSR 224
%define F_OUT_FPCW  228
%define F_IN_MXCSR  232
%define F_IN_FPCW   236
%define F_POISON    240      ; 1 = load vec_in/k_in before the call
%define F_IN_K      256      ; 8 x 8
%define F_OUT_K     320      ; 8 x 8
%define F_VEC_IN    384      ; 32 x 64
%define F_VEC_OUT   2432     ; 32 x 64
%define F_OUT_GPR   4480     ; rdi rsi rdx rcx r8 r9 r10 r11
; total 4480

extern g_simframe
extern simcpu_cpuid_c
extern simcpu_xgetbv_c
extern sched_point_c

section .bss
align 16
tmp_rax:  resq 1
tmp_fn:   resq 1

section .text

global simcall:function
simcall:
	push	rbx
	push	rbp
	push	r12
	push	r13
	push	r14
	push	r15
	mov	[g_simframe], rdi
	mov	[rdi + F_HOST_RSP], rsp
	mov	rax, [rdi + F_FN]
	mov	[tmp_fn], rax
	stmxcsr	[rdi + F_IN_MXCSR]
	fnstcw	[rdi + F_IN_FPCW]

	cmp	dword [rdi + F_POISON], 0
	je	.no_poison
%assign i 0
%rep 32
	vmovdqu64 zmm %+ i, [rdi + F_VEC_IN + 64*i]
%assign i i+1
%endrep
%assign i 0
%rep 8
	kmovq	k %+ i, [rdi + F_IN_K + 8*i]
%assign i i+1
%endrep
.no_poison:
	mov	rsp, [rdi + F_CALL_RSP]
	push	qword [rdi + F_IN_FLAGS]
	popfq
	mov	rbx, [rdi + F_IN_CALLEE + 0]
	mov	rbp, [rdi + F_IN_CALLEE + 8]
	mov	r12, [rdi + F_IN_CALLEE + 16]
	mov	r13, [rdi + F_IN_CALLEE + 24]
	mov	r14, [rdi + F_IN_CALLEE + 32]
	mov	r15, [rdi + F_IN_CALLEE + 40]
	mov	rax, [rdi + F_IN_RAX]
	mov	r10, [rdi + F_IN_R10]
	mov	r11, [rdi + F_IN_R11]
	mov	rsi, [rdi + F_ARGS + 8]
	mov	rdx, [rdi + F_ARGS + 16]
	mov	rcx, [rdi + F_ARGS + 24]
	mov	r8,  [rdi + F_ARGS + 32]
	mov	r9,  [rdi + F_ARGS + 40]
	mov	rdi, [rdi + F_ARGS + 0]
	call	[tmp_fn]
	; ---- back from the library: capture before touching anything
	; (the trap flag may still be set by the signal-fault mode: clear it; the arithmetic flags and DF are kept for the capture below)
	pushfq
	and	qword [rsp], ~0x100
	popfq
	mov	[tmp_rax], rax
	mov	rax, [g_simframe]
	mov	[rax + F_OUT_RSP], rsp
	mov	[rax + F_OUT_CALLEE + 0], rbx
	mov	[rax + F_OUT_CALLEE + 8], rbp
	mov	[rax + F_OUT_CALLEE + 16], r12
	mov	[rax + F_OUT_CALLEE + 24], r13
	mov	[rax + F_OUT_CALLEE + 32], r14
	mov	[rax + F_OUT_CALLEE + 40], r15
	mov	[rax + F_OUT_GPR + 0], rdi
	mov	[rax + F_OUT_GPR + 8], rsi
	mov	[rax + F_OUT_GPR + 16], rdx
	mov	[rax + F_OUT_GPR + 24], rcx
	mov	[rax + F_OUT_GPR + 32], r8
	mov	[rax + F_OUT_GPR + 40], r9
	mov	[rax + F_OUT_GPR + 48], r10
	mov	[rax + F_OUT_GPR + 56], r11
	mov	rsp, [rax + F_HOST_RSP]
	pushfq
	pop	rbx
	mov	[rax + F_OUT_FLAGS], rbx
	cld
	stmxcsr	[rax + F_OUT_MXCSR]
	fnstcw	[rax + F_OUT_FPCW]
%assign i 0
%rep 32
	vmovdqu64 [rax + F_VEC_OUT + 64*i], zmm %+ i
%assign i i+1
%endrep
%assign i 0
%rep 8
	kmovq	[rax + F_OUT_K + 8*i], k %+ i
%assign i i+1
%endrep
	mov	rbx, [tmp_rax]
	mov	[rax + F_OUT_RAX], rbx
	ldmxcsr	[rax + F_IN_MXCSR]
	fldcw	[rax + F_IN_FPCW]
	vzeroall
	mov	rax, rbx
	pop	r15
	pop	r14
	pop	r13
	pop	r12
	pop	rbp
	pop	rbx
	ret

; ------------------------------------------------------------------------------------
; Save/restore everything the replaced instruction would not touch.
; Layout after SAVE_ALL (rsp 64-aligned):
;   [rsp + 0      .. 2047]  zmm0-31
;   [rsp + 2048   .. 2111]  k0-7
;   [rsp + 2112]            original rsp (after the pushes below)
%macro SAVE_ALL 0
	pushfq
	push	rax
	push	rbx
	push	rcx
	push	rdx
	push	rsi
	push	rdi
	push	rbp
	push	r8
	push	r9
	push	r10
	push	r11
	push	r12
	push	r13
	push	r14
	push	r15
	mov	rbp, rsp
	sub	rsp, 2176
	and	rsp, -64
	mov	[rsp + 2112], rbp
%assign i 0
%rep 32
	vmovdqu64 [rsp + 64*i], zmm %+ i
%assign i i+1
%endrep
%assign i 0
%rep 8
	kmovq	[rsp + 2048 + 8*i], k %+ i
%assign i i+1
%endrep
	cld
%endmacro

%macro RESTORE_ALL 0
%assign i 0
%rep 32
	vmovdqu64 zmm %+ i, [rsp + 64*i]
%assign i i+1
%endrep
%assign i 0
%rep 8
	kmovq	k %+ i, [rsp + 2048 + 8*i]
%assign i i+1
%endrep
	; The save area lies on the library's stack. Whatever the vector registers held at the hook (key material left there by
	; the code under test, for instance) must not stay behind as a stack residue of the harness's own making: wipe it.
	; rdi, rcx, rax and the flags are restored from the pushes below.
	mov	rdi, rsp
	mov	ecx, 2112 / 8
	xor	eax, eax
	rep	stosq
	mov	rsp, [rsp + 2112]
	pop	r15
	pop	r14
	pop	r13
	pop	r12
	pop	r11
	pop	r10
	pop	r9
	pop	r8
	pop	rbp
	pop	rdi
	pop	rsi
	pop	rdx
	pop	rcx
	pop	rbx
	pop	rax
	popfq
%endmacro

; offsets of saved GPRs relative to the value stored at [rsp+2112] (= rbp inside the stub)
%define S_R15 0
%define S_R14 8
%define S_R13 16
%define S_R12 24
%define S_R11 32
%define S_R10 40
%define S_R9  48
%define S_R8  56
%define S_RBP 64
%define S_RDI 72
%define S_RSI 80
%define S_RDX 88
%define S_RCX 96
%define S_RBX 104
%define S_RAX 112
%define S_FLAGS 120
%define S_RET 128

global isal_verif_cpuid:function
isal_verif_cpuid:
	SAVE_ALL
	mov	edi, [rbp + S_RAX]     ; leaf
	mov	esi, [rbp + S_RCX]     ; subleaf
	lea	rdx, [rbp + S_RET]
	mov	rdx, [rdx]             ; return address = call site
	sub	rsp, 64
	mov	rcx, rsp               ; out[4]
	call	simcpu_cpuid_c
	mov	eax, [rsp + 0]
	mov	ebx, [rsp + 4]
	mov	ecx, [rsp + 8]
	mov	edx, [rsp + 12]
	add	rsp, 64
	mov	rbp, [rsp + 2112]
	mov	[rbp + S_RAX], rax     ; zero-extended, as the instruction does
	mov	[rbp + S_RBX], rbx
	mov	[rbp + S_RCX], rcx
	mov	[rbp + S_RDX], rdx
	RESTORE_ALL
	ret

global isal_verif_xgetbv:function
isal_verif_xgetbv:
	SAVE_ALL
	mov	edi, [rbp + S_RCX]     ; xcr index
	mov	rsi, [rbp + S_RET]
	call	simcpu_xgetbv_c        ; returns 64-bit xcr value
	mov	rbp, [rsp + 2112]
	mov	edx, eax
	mov	[rbp + S_RAX], rdx     ; eax = low
	shr	rax, 32
	mov	[rbp + S_RDX], rax     ; edx = high
	RESTORE_ALL
	ret

; Fast path for the "stalled runner" fault: while g_sched_skip > 0, visits of the scheduling point whose return address is
; g_sched_skip_site (the spin-loop compare) return at once, so that a waiter can poll millions of times at native speed
; without the runner making a step. Flags and rax are preserved.
global g_sched_skip:data
global g_sched_skip_site:data
section .data
align 8
g_sched_skip:      dq 0
g_sched_skip_site: dq 0
section .text

global isal_verif_sched_point:function
isal_verif_sched_point:
	pushfq
	push	rax
	mov	rax, [rsp + 16]
	cmp	rax, [rel g_sched_skip_site]
	jne	.slow
	cmp	qword [rel g_sched_skip], 0
	je	.slow
	dec	qword [rel g_sched_skip]
	pop	rax
	popfq
	ret
.slow:
	pop	rax
	popfq
	SAVE_ALL
	mov	rdi, [rbp + S_RET]
	mov	rsi, rbp               ; saved-register frame (the C side may emulate the next instruction and skip it)
	call	sched_point_c
	RESTORE_ALL
	ret

section .note.GNU-stack noalloc noexec nowrite progbits
