// fips.cc — FipsRaceSim (C17) and FipsGateSim (C13). Only meaningful when linked against the
// FIPS_MODE=y archive (isalsim_fips); the link wraps _aes_self_tests/_sha_self_tests.
#include "sim.h"
#include "sched.h"
#include <algorithm>

extern "C" {
#include "isal_crypto_api.h"
#include "aes_gcm.h"
#include <sys/time.h>
#include "aes_cbc.h"
#include "aes_xts.h"
#include "aes_keyexp.h"
#include "sha1_mb.h"
#include "sha256_mb.h"
#include "sha512_mb.h"
#include "md5_mb.h"
#include "sm3_mb.h"
#include "mh_sha1.h"
#include "mh_sha256.h"
#include "mh_sha1_murmur3_x64_128.h"
#include "rolling_hashx.h"
int __real__aes_self_tests(void) __attribute__((weak));
int __real__sha_self_tests(void) __attribute__((weak));
int __wrap__aes_self_tests(void);
int __wrap__sha_self_tests(void);
int generic_isal_self_tests(void); // fips/self_tests_generic.c compiled with shimmed atomics (generic_shim.h)
void generic_shim_point(volatile void *addr, int kind);
}
static volatile uint32_t *g_generic_status = nullptr;
static void (*g_generic_hook)(int kind) = nullptr;
extern "C" void generic_shim_point(volatile void *addr, int kind)
{
        if (addr)
                g_generic_status = (volatile uint32_t *) addr;
        if (g_generic_hook)
                g_generic_hook(kind);
}

enum { ST_OK = 0, ST_FAIL = 1, ST_NOT_DONE = 2, ST_RUNNING = 3 };

// ---------------------------------------------------------------- self-test control (shared by both sims)
namespace {
struct SelfTestCtl {
        bool inject = false;       // true: return the injected verdict instead of running the real tests
        int aes_verdict = 0, sha_verdict = 0;
        int aes_entries = 0, sha_entries = 0, aes_exits = 0, sha_exits = 0;
        int aes_task = -1, sha_task = -1;
        bool in_window = false;    // between entry of aes tests and exit of sha tests (runner only)
        int yields = 0;            // how often the injected body yields
        CoSched *sched = nullptr;  // non-null inside FipsRaceSim
        std::function<void(int kind, int task)> on_event;
        void reset()
        {
                inject = false;
                aes_verdict = sha_verdict = 0;
                aes_entries = sha_entries = aes_exits = sha_exits = 0;
                aes_task = sha_task = -1;
                in_window = false;
                yields = 0;
                sched = nullptr;
                on_event = nullptr;
        }
};
SelfTestCtl g_st;
enum { EV_AES_ENTER = 1, EV_AES_EXIT, EV_SHA_ENTER, EV_SHA_EXIT, EV_KERNEL, EV_CALL_BEGIN, EV_CALL_RETURN, EV_PUBLISH_SEEN, EV_STALL };
extern "C" uint64_t g_sched_skip, g_sched_skip_site;
} // namespace

extern "C" int __wrap__aes_self_tests(void)
{
        int t = g_st.sched ? g_st.sched->current() : 0;
        g_st.aes_entries++;
        g_st.aes_task = t;
        g_st.in_window = true;
        if (g_st.on_event)
                g_st.on_event(EV_AES_ENTER, t);
        int ret;
        if (g_st.inject) {
                for (int i = 0; i < g_st.yields; i++)
                        if (g_st.sched)
                                g_st.sched->yield(0x1000 + i);
                ret = g_st.aes_verdict;
        } else
                ret = __real__aes_self_tests ? __real__aes_self_tests() : 1;
        g_st.aes_exits++;
        if (g_st.on_event)
                g_st.on_event(EV_AES_EXIT, t);
        return ret;
}
extern "C" int __wrap__sha_self_tests(void)
{
        int t = g_st.sched ? g_st.sched->current() : 0;
        g_st.sha_entries++;
        g_st.sha_task = t;
        if (g_st.on_event)
                g_st.on_event(EV_SHA_ENTER, t);
        int ret;
        if (g_st.inject) {
                for (int i = 0; i < g_st.yields; i++)
                        if (g_st.sched)
                                g_st.sched->yield(0x2000 + i);
                ret = g_st.sha_verdict;
        } else
                ret = __real__sha_self_tests ? __real__sha_self_tests() : 1;
        g_st.sha_exits++;
        g_st.in_window = false;
        if (g_st.on_event)
                g_st.on_event(EV_SHA_EXIT, t);
        return ret;
}

namespace {

volatile uint32_t *g_status = nullptr;
void (*g_set_status)(int) = nullptr;
int (*g_isal_self_tests)(void) = nullptr;

static void fips_syms()
{
        if (g_status)
                return;
        g_status = (volatile uint32_t *) libsym("self_test_status");
        g_set_status = (void (*)(int)) libsym("asm_set_self_tests_status");
        g_isal_self_tests = (int (*)(void)) libsym("isal_self_tests");
}

// ---------------------------------------------------------------- kernel interposers (recording stubs)
struct Interposer {
        const char *entry;  // dispatched entry name, e.g. "_aes_keyexp_128"
        void **slot = nullptr;
        void *real = nullptr;
        void *stub = nullptr;
};
static std::function<void(const char *entry)> g_kernel_hook;

#define KHOOK(name)                                                                                                                        \
        do {                                                                                                                               \
                if (g_kernel_hook)                                                                                                         \
                        g_kernel_hook(name);                                                                                               \
        } while (0)

static Interposer ip_keyexp128{ "_aes_keyexp_128" }, ip_keyexp256{ "_aes_keyexp_256" }, ip_cbc_enc128{ "_aes_cbc_enc_128" },
        ip_sha1_init{ "_sha1_ctx_mgr_init" }, ip_sha256_init{ "_sha256_ctx_mgr_init" }, ip_sha512_init{ "_sha512_ctx_mgr_init" },
        ip_sha256_submit{ "_sha256_ctx_mgr_submit" }, ip_xts128_enc{ "_XTS_AES_128_enc" }, ip_gcm_pre_keyexp{ "_aes_keyexp_192" };

extern "C" {
static void stub_keyexp128(const uint8_t *k, uint8_t *e, uint8_t *d)
{
        KHOOK("_aes_keyexp_128");
        ((void (*)(const uint8_t *, uint8_t *, uint8_t *)) ip_keyexp128.real)(k, e, d);
}
static void stub_keyexp256(const uint8_t *k, uint8_t *e, uint8_t *d)
{
        KHOOK("_aes_keyexp_256");
        ((void (*)(const uint8_t *, uint8_t *, uint8_t *)) ip_keyexp256.real)(k, e, d);
}
static void stub_keyexp192(const uint8_t *k, uint8_t *e, uint8_t *d)
{
        KHOOK("_aes_keyexp_192");
        ((void (*)(const uint8_t *, uint8_t *, uint8_t *)) ip_gcm_pre_keyexp.real)(k, e, d);
}
static int stub_cbc_enc128(void *in, uint8_t *iv, uint8_t *keys, void *out, uint64_t len)
{
        KHOOK("_aes_cbc_enc_128");
        return ((int (*)(void *, uint8_t *, uint8_t *, void *, uint64_t)) ip_cbc_enc128.real)(in, iv, keys, out, len);
}
static void stub_sha1_init(void *m)
{
        KHOOK("_sha1_ctx_mgr_init");
        ((void (*)(void *)) ip_sha1_init.real)(m);
}
static void stub_sha256_init(void *m)
{
        KHOOK("_sha256_ctx_mgr_init");
        ((void (*)(void *)) ip_sha256_init.real)(m);
}
static void stub_sha512_init(void *m)
{
        KHOOK("_sha512_ctx_mgr_init");
        ((void (*)(void *)) ip_sha512_init.real)(m);
}
static void *stub_sha256_submit(void *m, void *c, const void *b, uint32_t l, int f)
{
        KHOOK("_sha256_ctx_mgr_submit");
        return ((void *(*) (void *, void *, const void *, uint32_t, int) ) ip_sha256_submit.real)(m, c, b, l, f);
}
static void stub_xts128_enc(uint8_t *k2, uint8_t *k1, uint8_t *tw, uint64_t n, const void *in, void *out)
{
        KHOOK("_XTS_AES_128_enc");
        ((void (*)(uint8_t *, uint8_t *, uint8_t *, uint64_t, const void *, void *)) ip_xts128_enc.real)(k2, k1, tw, n, in, out);
}
}

static std::vector<Interposer *> g_ips;
static void bind_interposers()
{
        if (!g_ips.empty())
                return;
        struct {
                Interposer *ip;
                void *stub;
        } tab[] = { { &ip_keyexp128, (void *) stub_keyexp128 },     { &ip_keyexp256, (void *) stub_keyexp256 },   { &ip_gcm_pre_keyexp, (void *) stub_keyexp192 },
                    { &ip_cbc_enc128, (void *) stub_cbc_enc128 },   { &ip_sha1_init, (void *) stub_sha1_init },   { &ip_sha256_init, (void *) stub_sha256_init },
                    { &ip_sha512_init, (void *) stub_sha512_init }, { &ip_sha256_submit, (void *) stub_sha256_submit }, { &ip_xts128_enc, (void *) stub_xts128_enc } };
        for (auto &t : tab) {
                Interposer *ip = t.ip;
                ip->slot = (void **) libsym((std::string(ip->entry) + "_dispatched").c_str());
                void (*di)(void) = (void (*)(void)) libsym((std::string(ip->entry) + "_dispatch_init").c_str());
                di(); // bind under the host CPU (pass-through)
                ip->real = *ip->slot;
                ip->stub = t.stub;
                g_ips.push_back(ip);
        }
}
static void arm_interposers(bool on)
{
        for (auto ip : g_ips)
                *ip->slot = on ? ip->stub : ip->real;
}

// ---------------------------------------------------------------- sched point sites (calibrated once)
static uintptr_t site_fast = 0, site_cas = 0, site_spin = 0, site_final = 0, site_publish = 0;
static std::vector<uintptr_t> cal_sites;
static int cal_spins = 0;
static void cal_hook(uintptr_t site)
{
        cal_sites.push_back(site);
        if (cal_sites.size() >= 3 && cal_sites[cal_sites.size() - 1] == cal_sites[cal_sites.size() - 2]) {
                if (++cal_spins >= 2)
                        *g_status = ST_OK; // let the spinning caller out
        }
}
static void calibrate_sites()
{
        if (site_fast)
                return;
        fips_syms();
        int (*check)(void) = (int (*)(void)) libsym("asm_check_self_tests_status");
        g_sched_hook = cal_hook;
        *g_status = ST_NOT_DONE;
        cal_sites.clear();
        check(); // winner path
        if (cal_sites.empty()) {
                fprintf(stderr, "HARNESS: no scheduling point reached in asm_check_self_tests_status (is hook H4 compiled in?)\n");
                exit(2);
        }
        // Site roles are only used to label yield points and to let a spinning task yield its PCT priority;
        // a changed protocol (more or fewer points) must not stop the check, so be lenient here.
        site_fast = cal_sites[0];
        site_cas = cal_sites.size() > 1 ? cal_sites[1] : 0;
        cal_sites.clear();
        cal_spins = 0;
        *g_status = ST_RUNNING;
        // loser path: the site that repeats is the spin compare; cal_hook releases the spinner after a few rounds.
        // A protocol that does not wait at all returns immediately, one that never looks again would hang: bound it.
        {
                static int rounds;
                rounds = 0;
                g_sched_hook = [](uintptr_t site) {
                        cal_hook(site);
                        if (++rounds > 64)
                                *g_status = ST_OK;
                };
                check();
                g_sched_hook = cal_hook;
        }
        site_spin = 0;
        for (size_t k = 1; k < cal_sites.size(); k++)
                if (cal_sites[k] == cal_sites[k - 1])
                        site_spin = cal_sites[k];
        site_final = cal_sites.empty() ? 0 : cal_sites.back();
        cal_sites.clear();
        g_set_status(ST_NOT_DONE);
        site_publish = cal_sites.empty() ? 0 : cal_sites[0];
        g_sched_hook = nullptr;
        *g_status = ST_NOT_DONE;
}

// =================================================================== FipsRaceSim (C17)
struct REv {
        uint64_t seq;
        int task, kind;
        int64_t val;
        uint32_t status;
};

struct FipsRaceSim : Sim {
        CoSched sched;
        std::vector<REv> evs;
        const char *name() const override { return "fipsrace"; }
        void process_init() override
        {
                fips_syms();
                bind_interposers();
                calibrate_sites();
        }
        std::vector<std::string> real_components() const override
        {
                return { "fips/asm_self_tests.asm (check / claim / spin / publish protocol, hook H4 yield points)", "fips/self_tests.c (isal_self_tests)",
                         "FIPS gates of the isal_* entry points the tasks call", "real _aes_self_tests/_sha_self_tests in 1 of 20 runs" };
        }
        std::vector<std::string> stub_components() const override
        {
                return { "threads: cooperative coroutine tasks, seeded scheduler (uniform or PCT-style priorities)",
                         "self-test bodies: injected verdict with yields (19 of 20 runs)", "kernel entry recording stubs behind the dispatch pointers" };
        }

        enum { OPK_STEP = 1, OPK_CHANGE = 2, OPK_STALL = 3 };

        Plan generate(uint64_t seed, const std::string &, bool thorough, uint64_t run_index) override
        {
                Rng g(seed, "plan");
                Plan p;
                int n = 1 + (int) g.below(8);
                p.cfg["tasks"] = n;
                p.cfg["verdict"] = g.chance(1, 2) ? 0 : 1 + (int) g.below(3); // 0 pass, 1 aes fails, 2 sha fails, 3 both
                p.cfg["real"] = g.chance(1, 20) ? 1 : 0;
                // real self-tests run on the family a CPU would bind: for the three gated hash algorithms a seeded family instead of the host's
                p.cfg["bind_fam"] = (int64_t) g.below(1 << 12);
                p.cfg["policy"] = (int) g.below(3); // 0 uniform, 1 pct, 2 uniform with bursts
                p.cfg["yields"] = (int) g.below(5);
                p.cfg["prio_seed"] = (int64_t) g.below(1 << 30);
                p.cfg["impl"] = g.chance(1, 4) ? 1 : 0; // 0: asm (x86_64 library), 1: self_tests_generic.c (C11 atomics variant)
                p.cfg["sha_fail_value"] = g.chance(1, 2) ? 1 : -1;
                for (int i = 0; i < n; i++) {
                        p.cfg[strfmt("t%d_kind", i)] = (int64_t) g.below(8);
                        p.cfg[strfmt("t%d_late", i)] = g.chance(1, 5) ? 1 : 0;
                        p.cfg[strfmt("t%d_twice", i)] = g.chance(1, 3) ? 1 : 0;
                }
                int nops = 20 + (int) g.below(thorough ? 400 : 200);
                int d = (int) g.below(4);
                for (int i = 0; i < nops; i++) {
                        Op o;
                        o.kind = OPK_STEP;
                        o.a = (int64_t) g.below(1 << 16);
                        o.b = (int64_t) g.below(8); // burst length for policy 2
                        p.ops.push_back(o);
                }
                for (int k = 0; k < d; k++) {
                        Op o;
                        o.kind = OPK_CHANGE;
                        p.ops.insert(p.ops.begin() + g.below(p.ops.size() + 1), o);
                }
                // fault "stalled runner": a task that is spinning on the RUNNING status polls 2^k times in a row while nobody else makes
                // a step (the thread that runs the self-tests is descheduled, swapped out, or just slow). One run in 8 has one or two
                // short stalls (2^8 .. 2^20 polls); a few runs per batch have a stall of more than 2^24 polls (about a second each).
                bool big = (run_index % 16384) == 5;
                bool vast = thorough && (run_index % 4000000) == 77; // a stall of more than 2^32 polls (about a minute): thorough tier only
                if (vast)
                        big = true;
                if (big || g.chance(1, 8)) {
                        int ns = big ? 1 : 1 + (int) g.below(2);
                        for (int k = 0; k < ns; k++) {
                                Op o;
                                o.kind = OPK_STALL;
                                o.a = (int64_t) g.below(1 << 16);
                                o.b = vast ? (int64_t) ((1ull << 32) + (1ull << 20) + g.below(1 << 16)) : big ? (int64_t) ((1u << 24) + (1u << 16) + g.below(1 << 16)) : (int64_t) (1ull << (8 + 4 * g.below(4))) + (int64_t) g.below(7);
                                // early in the schedule, where waiters exist; the long stalls come first and the schedule is fair until a waiter spins
                                p.ops.insert(p.ops.begin() + (big ? 0 : g.below(std::min<size_t>(p.ops.size(), 60) + 1)), o);
                        }
                        if (big) {
                                p.cfg["tasks"] = std::max<int64_t>(2, p.cfg["tasks"]);
                                p.cfg["policy"] = 0;
                                p.cfg["impl"] = 0;
                                p.cfg["real"] = 0;
                                p.cfg["force_stall"] = 1;
                        }
                }
                return p;
        }
        std::string render(const Plan &p) const override
        {
                std::string s = strfmt("tasks=%lld verdict=%lld real=%lld policy=%lld kinds=[", (long long) p.get("tasks"), (long long) p.get("verdict"),
                                       (long long) p.get("real"), (long long) p.get("policy"));
                for (int i = 0; i < p.get("tasks"); i++)
                        s += strfmt("%s%lld%s%s", i ? "," : "", (long long) p.get(strfmt("t%d_kind", i).c_str()), p.get(strfmt("t%d_late", i).c_str()) ? "L" : "",
                                    p.get(strfmt("t%d_twice", i).c_str()) ? "x2" : "");
                s += strfmt("] schedule choices=%zu", p.ops.size());
                return s;
        }

        // per-task argument storage (harness-owned, never shared between tasks)
        struct TaskArgs {
                alignas(64) uint8_t mgr[sizeof(ISAL_SHA512_HASH_CTX_MGR) + sizeof(ISAL_SHA1_HASH_CTX_MGR)];
                alignas(16) uint8_t key[32], enc[16 * 15], dec[16 * 15], iv[16], in[32], out[32], key2[32];
        };
        TaskArgs targs[CoSched::MAXT];

        int do_call(int t, int kind)
        {
                if (kind < 0)
                        return generic_isal_self_tests();
                TaskArgs &a = targs[t];
                for (int i = 0; i < 32; i++) {
                        a.key[i] = (uint8_t) (i * 7 + t);
                        a.key2[i] = (uint8_t) (i * 13 + t + 1);
                }
                switch (kind) {
                case 0: return g_isal_self_tests();
                case 1: return isal_sha256_ctx_mgr_init((ISAL_SHA256_HASH_CTX_MGR *) a.mgr);
                case 2: return isal_aes_keyexp_128(a.key, a.enc, a.dec);
                case 3: return isal_aes_cbc_enc_128(a.in, a.iv, a.enc, a.out, (t & 1) ? 0 : 16); // odd tasks: an empty message
                case 4: return isal_sha1_ctx_mgr_init((ISAL_SHA1_HASH_CTX_MGR *) a.mgr);
                case 5: return isal_sha512_ctx_mgr_init((ISAL_SHA512_HASH_CTX_MGR *) a.mgr);
                case 6: return isal_aes_keyexp_256(a.key, a.enc, a.dec);
                default: return isal_aes_xts_enc_128(a.key2, a.key, a.iv, 32, a.in, a.out);
                }
        }

        void execute(const Plan &p, Env &e, RunResult &r) override
        {
                int n = (int) std::max<int64_t>(1, std::min<int64_t>(p.get("tasks"), 8));
                int verdict = (int) p.get("verdict");
                bool real = p.get("real") != 0;
                int policy = (int) p.get("policy");
                bool generic = p.get("impl") == 1;
                // the generic variant keeps its status in a function-local static; its address is learnt from the first shimmed access
                if (generic && !g_generic_status) {
                        g_st.reset();
                        g_st.inject = true;
                        generic_isal_self_tests();
                }
                if (generic && g_generic_status)
                        *g_generic_status = ST_NOT_DONE;
                volatile uint32_t *const stp = generic ? g_generic_status : g_status;
#define g_status stp
                evs.clear();
                uint64_t seq = 0;
                sched.reset();
                g_st.reset();
                g_st.inject = !real;
                g_st.aes_verdict = (verdict & 1) ? 1 : 0;
                g_st.sha_verdict = (verdict & 2) ? (p.get("sha_fail_value", 1) < 0 ? -1 : 1) : 0; // the real SHA tests return -1
                if (real)
                        verdict = 0;
                g_st.yields = (int) p.get("yields");
                g_st.sched = &sched;
                auto log = [&](int kind, int task, int64_t val) {
                        evs.push_back(REv{ seq++, task, kind, val, *g_status });
                        r.ev.add(mix64(((uint64_t) kind << 8) | (uint64_t) (task + 1), (uint64_t) val ^ ((uint64_t) *g_status << 32)));
                };
                g_st.on_event = [&](int kind, int task) { log(kind, task, 0); };
                g_kernel_hook = [&](const char *entry) {
                        log(EV_KERNEL, sched.current(), (int64_t) hash_str(entry) & 0xffff);
                        sched.yield(0x3000);
                };
                static FipsRaceSim *self;
                self = this;
                static std::vector<uintptr_t> *spin_flag;
                static bool last_was_spin;
                last_was_spin = false;
                g_sched_hook = [](uintptr_t site) {
                        last_was_spin = (site == site_spin);
                        self->sched.yield((uint64_t) (site == site_fast ? 1 : site == site_cas ? 2 : site == site_spin ? 3 : site == site_final ? 4 : 5));
                };
                g_rmw_gap_hook = [](uintptr_t) {
                        last_was_spin = false;
                        self->sched.yield(6);
                };
                g_generic_hook = [](int kind) {
                        if (self->sched.current() < 0)
                                return;
                        last_was_spin = (kind == 4);
                        self->sched.yield(0x60 + (uint64_t) kind);
                };
                (void) spin_flag;
                *g_status = ST_NOT_DONE;
                arm_interposers(true);
                // (real self-tests only) bind the hash managers the self-tests use to a seeded family
                struct Rebind {
                        std::vector<std::pair<void **, void *>> saved;
                        ~Rebind()
                        {
                                for (auto &kv : saved)
                                        *kv.first = kv.second;
                        }
                } rebind;
                if (real && !generic) {
                        static const char *algs[3] = { "sha1", "sha256", "sha512" };
                        static const std::vector<std::string> fams[3] = { { "base", "sse", "sse_ni", "avx", "avx2", "avx512", "avx512_ni" },
                                                                         { "base", "sse", "sse_ni", "avx", "avx2", "avx512", "avx512_ni" },
                                                                         { "base", "sse", "sb_sse4", "avx", "avx2", "avx512" } };
                        uint64_t bf = (uint64_t) p.get("bind_fam");
                        for (int a = 0; a < 3; a++) {
                                const std::string &fam = fams[a][(bf >> (4 * a)) % fams[a].size()];
                                for (const char *fn : { "init", "submit", "flush" }) {
                                        void **slot = (void **) libsym(strfmt("_%s_ctx_mgr_%s_dispatched", algs[a], fn).c_str(), false);
                                        void *impl = libsym(strfmt("_%s_ctx_mgr_%s_%s", algs[a], fn, fam.c_str()).c_str(), false);
                                        if (slot && impl) {
                                                rebind.saved.emplace_back(slot, *slot);
                                                *slot = impl;
                                        }
                                }
                                r.cov.hit(strfmt("probe_real_self_tests_on_%s_%s", algs[a], fam.c_str()));
                        }
                }
                // a task that does not reach its next scheduling point within 10 s of CPU time is cut off there (liveness)
                static bool step_hung;
                step_hung = false;
                g_step_hang_hook = []() {
                        step_hung = true;
                        self->sched.yield(0xdead);
                };
                std::vector<std::vector<int>> rcs(n);
                std::vector<bool> late(n);
                std::vector<int> kinds(n), ncalls(n);
                for (int i = 0; i < n; i++) {
                        kinds[i] = generic ? -1 : (int) (p.get(strfmt("t%d_kind", i).c_str()) % 8);
                        late[i] = p.get(strfmt("t%d_late", i).c_str()) != 0;
                        ncalls[i] = p.get(strfmt("t%d_twice", i).c_str()) ? 2 : 1;
                        sched.spawn([this, i, &kinds, &ncalls, &rcs, &log]() {
                                for (int c = 0; c < ncalls[i]; c++) {
                                        log(EV_CALL_BEGIN, i, kinds[i]);
                                        int rc = do_call(i, kinds[i]);
                                        rcs[i].push_back(rc);
                                        log(EV_CALL_RETURN, i, rc);
                                }
                        });
                }
                // at least one task must not be late, otherwise nobody ever runs the tests
                bool any_early = false;
                for (int i = 0; i < n; i++)
                        any_early = any_early || !late[i];
                if (!any_early)
                        late[0] = false;
                // PCT priorities
                Rng pr((uint64_t) p.get("prio_seed"), "prio");
                std::vector<int> prio(n);
                for (int i = 0; i < n; i++)
                        prio[i] = i + 10;
                for (int i = n - 1; i > 0; i--)
                        std::swap(prio[i], prio[pr.below(i + 1)]);
                int low = 0; // next low priority value
                uint64_t steps = 0, published_at = 0;
                bool published = false;
                std::vector<uint64_t> steps_at_publish(n, 0);
                const uint64_t CAP = 20000;
                size_t opi = 0;
                int burst_task = -1, burst_left = 0;
                int rr = 0;
                bool cap_hit = false;
                std::vector<Op> deferred; // stalled-runner faults waiting for a spinning waiter
                auto try_stall = [&](const Op &o, const std::vector<int> &run) -> bool {
                        // a spinning waiter (asm implementation) polls o.b times in a row while nobody else makes a step
                        std::vector<int> sp;
                        for (int t : run)
                                if (!generic && !sched.task(t).done && sched.task(t).last_point == 3)
                                        sp.push_back(t);
                        if (sp.empty() || !site_spin)
                                return false;
                        int t = sp[o.a % sp.size()];
                        g_sched_skip_site = site_spin;
                        g_sched_skip = (uint64_t) o.b;
                        r.cov.hit(strfmt("fault_runner_stalled_waiter_polls_2^%d", 63 - __builtin_clzll((unsigned long long) std::max<int64_t>(1, o.b))));
                        log(EV_STALL, t, o.b);
                        last_was_spin = false;
                        sched.step(t);
                        g_sched_skip = 0;
                        steps++;
                        r.steps++;
                        // the runner is still held up: a waiter that has left the wait loop during the stall goes on alone
                        for (int extra = 0; extra < 64 && !sched.task(t).done && sched.task(t).last_point != 3; extra++) {
                                r.cov.hit("probe_stalled_waiter_left_the_loop_and_went_on_alone");
                                sched.step(t);
                                steps++;
                                r.steps++;
                        }
                        return true;
                };
                while (!sched.all_done()) {
                        if (steps >= CAP) {
                                cap_hit = true;
                                break;
                        }
                        std::vector<int> run;
                        for (int i = 0; i < n; i++)
                                if (!sched.task(i).done && (!late[i] || published))
                                        run.push_back(i);
                        if (run.empty()) {
                                // only late tasks remain but nothing published: cannot happen unless the runner never publishes
                                for (int i = 0; i < n; i++)
                                        if (!sched.task(i).done)
                                                run.push_back(i);
                        }
                        if (!deferred.empty() && try_stall(deferred.back(), run)) {
                                deferred.pop_back();
                                continue;
                        }
                        int pick;
                        if (opi < p.ops.size()) {
                                const Op &o = p.ops[opi++];
                                if (o.kind == OPK_STALL) {
                                        if (!try_stall(o, run))
                                                deferred.push_back(o); // nobody is spinning yet: fires as soon as somebody is
                                        continue;
                                }
                                if (o.kind == OPK_CHANGE) {
                                        if (policy == 1) {
                                                int best = run[0];
                                                for (int t : run)
                                                        if (prio[t] > prio[best])
                                                                best = t;
                                                prio[best] = low--;
                                        }
                                        continue;
                                }
                                if (policy == 1) {
                                        pick = run[0];
                                        for (int t : run)
                                                if (prio[t] > prio[pick])
                                                        pick = t;
                                } else if (policy == 2) {
                                        if (burst_left > 0 && std::find(run.begin(), run.end(), burst_task) != run.end()) {
                                                pick = burst_task;
                                                burst_left--;
                                        } else {
                                                pick = run[o.a % run.size()];
                                                burst_task = pick;
                                                burst_left = (int) o.b;
                                        }
                                } else
                                        pick = run[o.a % run.size()];
                        } else {
                                pick = run[rr++ % run.size()]; // deterministic fair fallback
                        }
                        if (!deferred.empty() && p.get("force_stall"))
                                pick = run[rr++ % run.size()]; // a long stall is waiting for a spinning waiter: round-robin produces one
                        last_was_spin = false;
                        {
                                struct itimerval it;
                                memset(&it, 0, sizeof it);
                                it.it_value.tv_sec = 10;
                                setitimer(ITIMER_VIRTUAL, &it, nullptr);
                                sched.step(pick);
                                memset(&it, 0, sizeof it);
                                setitimer(ITIMER_VIRTUAL, &it, nullptr);
                        }
                        if (step_hung) {
                                g_step_hang_hook = nullptr;
                                e.violation("C17", "liveness", std::string("C17/liveness/no-progress/") + (generic ? "generic_c11" : "asm") + (real ? "/real" : "/injected"),
                                            strfmt("task %d did not reach a scheduling point within 10 s of CPU time (status %u): a thread inside the self-tests or the wait loop "
                                                   "never returns",
                                                   pick, (unsigned) *g_status));
                        }
                        steps++;
                        r.steps++;
                        if (last_was_spin && policy == 1)
                                prio[pick] = low--; // a spinning task yields its priority (fairness of PCT under spin loops)
                        // protocol state for the distinct-state measure: status x per-task program point is folded into the trace
                        {
                                // protocol state: status value x per-task program point (last yield point, done flag)
                                uint64_t sh = *g_status;
                                for (int i = 0; i < n; i++)
                                        sh = mix64(sh, sched.task(i).done ? 0xd0e : sched.task(i).last_point + 1);
                                r.cov.state(sh);
                        }
                        if (!published && (*g_status == ST_OK || *g_status == ST_FAIL) && (g_st.sha_exits > 0 || (g_st.aes_exits > 0 && (verdict & 1)))) {
                                published = true;
                                published_at = steps;
                                for (int i = 0; i < n; i++)
                                        steps_at_publish[i] = sched.task(i).steps;
                                log(EV_PUBLISH_SEEN, pick, *g_status);
                        }
                }
                g_sched_hook = nullptr;
                g_step_hang_hook = nullptr;
                g_rmw_gap_hook = nullptr;
                g_generic_hook = nullptr;
                g_kernel_hook = nullptr;
                arm_interposers(false);
                g_st.sched = nullptr;
                g_st.on_event = nullptr;
                r.ev.add(sched.trace.h);
                if (g_rmw_split_count) {
                        r.cov.hit("probe_unlocked_rmw_on_shared_status_executed_as_two_bus_cycles", g_rmw_split_count);
                        g_rmw_split_count = 0;
                }
                if (g_rmw_unmodelled_count) {
                        r.cov.hit("probe_unlocked_rmw_form_not_modelled", g_rmw_unmodelled_count);
                        g_rmw_unmodelled_count = 0;
                }
                r.cov.hit(strfmt("probe_tasks_%d", n));
                r.cov.hit(real ? "fault_none_real_self_tests" : verdict == 0 ? "fault_none_injected_pass" : verdict == 1 ? "fault_aes_self_test_fails" : verdict == 2 ? "fault_sha_self_test_fails" : "fault_both_self_tests_fail");
                r.cov.hit(strfmt("probe_policy_%d", policy));
                // abandon unfinished coroutines safely: nothing to unwind (tasks hold no resources)
                // ---- oracle over the recorded history
                std::string tag = strfmt("%s/%s", generic ? "generic_c11" : "asm", real ? "real" : "injected");
                r.cov.hit(generic ? "probe_impl_self_tests_generic_c" : "probe_impl_asm_self_tests");
                if (cap_hit) {
                        e.violation("C17", "liveness", "C17/liveness/" + tag,
                                    strfmt("%d task(s) still not finished after %llu scheduling steps (%s; fair round-robin fallback in effect)",
                                           (int) sched.runnable().size(), (unsigned long long) steps, published ? "verdict was published" : "verdict never published"));
                }
                // AES tests exactly once; SHA tests exactly once too, except that an implementation may skip them after an AES failure
                bool sha_may_skip = (verdict & 1) != 0;
                if (g_st.aes_entries != 1 || g_st.sha_entries > 1 || (g_st.sha_entries == 0 && !sha_may_skip))
                        e.violation("C17", "run-count", "C17/run-count/" + tag,
                                    strfmt("self-tests entered %d (AES) and %d (SHA) times with %d tasks, expected exactly once", g_st.aes_entries, g_st.sha_entries, n));
                if (g_st.sha_entries && g_st.aes_task != g_st.sha_task)
                        e.violation("C17", "two-runners", "C17/two-runners/" + tag, "AES and SHA self-tests were run by different tasks");
                int runner = g_st.aes_task;
                // window: [aes enter, sha exit] of the runner
                uint64_t win_lo = ~0ull, win_hi = ~0ull, done_seq = ~0ull;
                for (auto &ev : evs) {
                        if (ev.kind == EV_AES_ENTER && win_lo == ~0ull)
                                win_lo = ev.seq;
                        if (ev.kind == EV_SHA_EXIT || (ev.kind == EV_AES_EXIT && g_st.sha_entries == 0))
                                win_hi = done_seq = ev.seq;
                }
                int expect_rc = verdict == 0 ? 0 : ISAL_CRYPTO_ERR_SELF_TEST;
                for (auto &ev : evs) {
                        if (ev.kind == EV_KERNEL) {
                                bool in_win = ev.task == runner && ev.seq > win_lo && ev.seq < win_hi;
                                if (!in_win && ev.status != ST_OK)
                                        e.violation("C17", "early-crypto", "C17/early-crypto/" + tag,
                                                    strfmt("task %d entered a crypto kernel at event %llu while the self-test status was %u (not passed)", ev.task,
                                                           (unsigned long long) ev.seq, ev.status));
                                if (!in_win && ev.seq < done_seq)
                                        e.violation("C17", "early-crypto", "C17/early-crypto/" + tag,
                                                    strfmt("task %d entered a crypto kernel at event %llu before the self-tests finished (event %llu)", ev.task,
                                                           (unsigned long long) ev.seq, (unsigned long long) done_seq));
                        }
                        if (ev.kind == EV_CALL_RETURN) {
                                if (ev.val == 0 && (ev.seq < done_seq || ev.status != ST_OK))
                                        e.violation("C17", "early-success", "C17/early-success/" + tag,
                                                    strfmt("task %d's call returned success at event %llu before the self-tests had finished and passed (status %u)", ev.task,
                                                           (unsigned long long) ev.seq, ev.status));
                                if ((int) ev.val != expect_rc)
                                        e.violation("C17", "verdict-mismatch", "C17/verdict-mismatch/" + tag,
                                                    strfmt("task %d's call returned %lld, but the self-test verdict is %s (expected %d)", ev.task, (long long) ev.val,
                                                           verdict == 0 ? "pass" : "fail", expect_rc));
                        }
                }
                if (!cap_hit && published) {
                        for (int i = 0; i < n; i++) {
                                uint64_t after = sched.task(i).steps - steps_at_publish[i];
                                uint64_t bound = 8 * (uint64_t) ncalls[i] + 4;
                                if (after > bound)
                                        e.violation("C17", "liveness", "C17/liveness/" + tag,
                                                    strfmt("task %d needed %llu of its own scheduling steps after the verdict was published (bound %llu)", i,
                                                           (unsigned long long) after, (unsigned long long) bound));
                                if (late[i] && !sched.task(i).done)
                                        ;
                        }
                        r.cov.hit("probe_verdict_published_and_all_tasks_returned");
                }
                for (int i = 0; i < n; i++) {
                        if (late[i])
                                r.cov.hit("probe_late_arrival_fast_path");
                        for (int rc : rcs[i])
                                e.obs(0x700 + i, (uint64_t) rc);
                }
                if (n > 1 && runner >= 0)
                        r.cov.hit(runner == 0 ? "probe_runner_is_task0" : "probe_runner_is_other_task");
                (void) published_at;
                // return the process to NOT_RUN for the next run
                *g_status = ST_NOT_DONE;
#undef g_status
                *g_status = ST_NOT_DONE;
        }
};

// =================================================================== FipsGateSim (C13)
enum EClass { EC_APPROVED = 0, EC_NONAPPROVED = 1, EC_XTS = 2, EC_SELFTEST = 3, EC_NEUTRAL = 4 };
struct GEntry {
        std::string name;
        EClass cls;
        void *fn;
        int driver; // index into the driver switch
        int a, b;   // driver parameters (key size index, variant)
};

struct FipsGateSim : Sim {
        std::vector<GEntry> entries;
        std::vector<std::string> undriven;
        const char *name() const override { return "fipsgate"; }
        std::vector<std::string> real_components() const override
        {
                return { "every isal_* wrapper of the FIPS_MODE=y archive (gates, XTS key comparison, invalid-algorithm returns)", "fips/self_tests.c + asm_self_tests.asm",
                         "real self-tests (fault kinds 'none' and 'KAT corruption')", "all kernels behind the wrappers when the gate lets a call through" };
        }
        std::vector<std::string> stub_components() const override
        {
                return { "self-test verdict when injected (--wrap=_aes_self_tests/_sha_self_tests)", "KAT corruption stubs behind dispatch pointers",
                         "memory map, register file" };
        }

        enum { D_CBC, D_GCM_ONESHOT, D_GCM_INIT, D_GCM_UPDATE, D_GCM_FINALIZE, D_GCM_PRE, D_KEYEXP, D_XTS, D_VERSION, D_VERSION_STR, D_HASH_INIT, D_HASH_SUBMIT,
               D_HASH_FLUSH, D_MH_INIT, D_MH_UPDATE, D_MH_FINALIZE, D_ROLL_INIT, D_ROLL_RESET, D_ROLL_RUN, D_ROLL_MASK, D_SELFTEST };

        void add(const std::string &n, EClass c, int drv, int a = 0, int b = 0)
        {
                void *fn = libsym(n.c_str(), false);
                if (!fn)
                        return;
                entries.push_back(GEntry{ n, c, fn, drv, a, b });
        }

        void process_init() override
        {
                fips_syms();
                bind_interposers();
                entries.clear();
                static const int bits3[3] = { 128, 192, 256 };
                for (int k = 0; k < 3; k++) {
                        add(strfmt("isal_aes_cbc_enc_%d", bits3[k]), EC_APPROVED, D_CBC, k, 0);
                        add(strfmt("isal_aes_cbc_dec_%d", bits3[k]), EC_APPROVED, D_CBC, k, 1);
                        add(strfmt("isal_aes_keyexp_%d", bits3[k]), EC_APPROVED, D_KEYEXP, k, 0);
                }
                for (int k = 0; k < 2; k++) {
                        int bits = k ? 256 : 128;
                        for (int dec = 0; dec < 2; dec++) {
                                const char *dir = dec ? "dec" : "enc";
                                add(strfmt("isal_aes_gcm_%s_%d", dir, bits), EC_APPROVED, D_GCM_ONESHOT, k, dec);
                                add(strfmt("isal_aes_gcm_%s_%d_nt", dir, bits), EC_APPROVED, D_GCM_ONESHOT, k, dec | 2);
                                add(strfmt("isal_aes_gcm_%s_%d_update", dir, bits), EC_APPROVED, D_GCM_UPDATE, k, dec);
                                add(strfmt("isal_aes_gcm_%s_%d_update_nt", dir, bits), EC_APPROVED, D_GCM_UPDATE, k, dec | 2);
                                add(strfmt("isal_aes_gcm_%s_%d_finalize", dir, bits), EC_APPROVED, D_GCM_FINALIZE, k, dec);
                                add(strfmt("isal_aes_xts_%s_%d", dir, bits), EC_XTS, D_XTS, k, dec);
                                add(strfmt("isal_aes_xts_%s_%d_expanded_key", dir, bits), EC_XTS, D_XTS, k, dec | 2);
                        }
                        add(strfmt("isal_aes_gcm_init_%d", bits), EC_APPROVED, D_GCM_INIT, k, 0);
                        add(strfmt("isal_aes_gcm_pre_%d", bits), EC_APPROVED, D_GCM_PRE, k, 0);
                }
                static const char *hashes[5] = { "sha1", "sha256", "sha512", "md5", "sm3" };
                for (int h = 0; h < 5; h++) {
                        EClass c = h < 3 ? EC_APPROVED : EC_NONAPPROVED;
                        add(strfmt("isal_%s_ctx_mgr_init", hashes[h]), c, D_HASH_INIT, h);
                        add(strfmt("isal_%s_ctx_mgr_submit", hashes[h]), c, D_HASH_SUBMIT, h);
                        add(strfmt("isal_%s_ctx_mgr_flush", hashes[h]), c, D_HASH_FLUSH, h);
                }
                static const char *mhs[3] = { "mh_sha1", "mh_sha256", "mh_sha1_murmur3_x64_128" };
                for (int m = 0; m < 3; m++) {
                        add(strfmt("isal_%s_init", mhs[m]), EC_NONAPPROVED, D_MH_INIT, m);
                        add(strfmt("isal_%s_update", mhs[m]), EC_NONAPPROVED, D_MH_UPDATE, m);
                        add(strfmt("isal_%s_finalize", mhs[m]), EC_NONAPPROVED, D_MH_FINALIZE, m);
                }
                add("isal_rolling_hash2_init", EC_NONAPPROVED, D_ROLL_INIT);
                add("isal_rolling_hash2_reset", EC_NONAPPROVED, D_ROLL_RESET);
                add("isal_rolling_hash2_run", EC_NONAPPROVED, D_ROLL_RUN);
                add("isal_rolling_hashx_mask_gen", EC_NONAPPROVED, D_ROLL_MASK);
                add("isal_self_tests", EC_SELFTEST, D_SELFTEST);
                add("isal_crypto_get_version", EC_NEUTRAL, D_VERSION);
                add("isal_crypto_get_version_str", EC_NEUTRAL, D_VERSION_STR);
                // exported isal_* symbols without a driver are reported, not judged
                undriven.clear();
                for (auto &s : symbols_matching("isal_", "")) {
                        if (s.find("_slver") != std::string::npos)
                                continue;
                        bool have = false;
                        for (auto &ge : entries)
                                have = have || ge.name == s;
                        if (!have)
                                undriven.push_back(s);
                }
        }

        enum { FK_NONE_PASS = 0, FK_AES_FAIL = 1, FK_SHA_FAIL = 2, FK_KAT_CORRUPT = 3, FK_PRESET_FAILED = 4, FK_PRESET_PASSED = 5, FK_BOTH_FAIL = 6, FK_KAT_BOTH = 7, FK_N = 8 };
        enum { OPG_CALL = 1, OPG_INJECT = 2 };

        Plan generate(uint64_t seed, const std::string &, bool thorough, uint64_t run_index) override
        {
                Rng g(seed, "plan");
                Plan p;
                // initial state by fault injection
                p.cfg["fault"] = (int64_t) (run_index % FK_N);
                p.cfg["sha_fail_value"] = g.chance(1, 2) ? 1 : -1; // the real SHA tests report failure as -1, the header documents 1
                p.cfg["kat_target"] = (int64_t) g.below(8);
                p.cfg["kat_transient"] = (int64_t) g.below(2);
                int ne = (int) entries.size();
                int ncalls = 6 + (int) g.below(thorough ? 30 : 14);
                // the first call of the run rotates over all entry points so that every (entry, state, fault) triple is enumerated
                for (int i = 0; i < ncalls; i++) {
                        Op o;
                        o.kind = OPG_CALL;
                        o.a = i == 0 ? (int64_t) ((run_index / FK_N) % (ne ? ne : 1)) : (int64_t) g.below(ne ? ne : 1);
                        o.b = (int64_t) g.below(1 << 16); // variant: xts same keys, lengths
                        o.c = (int64_t) g.below(1 << 16);
                        o.d = (int64_t) g.below(1 << 16);
                        p.ops.push_back(o);
                        if (g.chance(1, 12)) {
                                Op f;
                                f.kind = OPG_INJECT;
                                f.a = (int64_t) g.below(FK_N);
                                p.ops.push_back(f);
                        }
                }
                return p;
        }
        std::string render(const Plan &p) const override
        {
                static const char *fk[FK_N] = { "none(pass)",    "aes_self_test_fails", "sha_self_test_fails",      "kat_corruption",
                                                "preset_failed", "preset_passed",       "aes_and_sha_self_tests_fail", "kat_corruption_aes_and_sha" };
                std::string s = strfmt("initial_fault=%s calls=[", fk[p.get("fault") % FK_N]);
                for (size_t i = 0; i < p.ops.size() && i < 16; i++) {
                        if (p.ops[i].kind == OPG_CALL && !entries.empty())
                                s += (i ? " " : "") + entries[p.ops[i].a % entries.size()].name + strfmt("(%lld)", (long long) p.ops[i].b);
                        else
                                s += strfmt(" INJECT(%s)", fk[p.ops[i].a % FK_N]);
                }
                return s + "]";
        }

        // --- state model
        int model_state = ST_NOT_DONE; // what self_test_status must be
        int pending_fault = FK_NONE_PASS;
        int sha_fail_value = 1;

        static const char *state_name(int s) { return s == ST_OK ? "PASSED" : s == ST_FAIL ? "FAILED" : s == ST_NOT_DONE ? "NOT_RUN" : "RUNNING"; }

        // KAT corruption: a kernel behind a dispatch pointer returns a flipped bit while the self-tests run
        static inline int kat_target = 0;
        static inline bool kat_armed = false;
        static inline bool kat_transient = false; // the corruption hits only the first KAT it meets
        static void kat_hook_install(bool on);

        void apply_fault(int fk, Env &e, RunResult &r)
        {
                (void) e;
                g_st.reset();
                kat_armed = false;
                pending_fault = fk;
                static const char *fkn[FK_N] = { "fault_none_self_tests_pass", "fault_aes_self_test_forced_to_fail", "fault_sha_self_test_forced_to_fail", "fault_kat_corruption_in_kernel",
                                                 "fault_state_preset_failed", "fault_state_preset_passed", "fault_aes_and_sha_self_tests_forced_to_fail",
                                                 "fault_kat_corruption_in_an_aes_and_a_sha_kernel" };
                r.cov.hit(fkn[fk]);
                switch (fk) {
                case FK_NONE_PASS:
                        g_set_status(ST_NOT_DONE);
                        model_state = ST_NOT_DONE;
                        break;
                case FK_AES_FAIL:
                        g_set_status(ST_NOT_DONE);
                        g_st.inject = true;
                        g_st.aes_verdict = 1;
                        model_state = ST_NOT_DONE;
                        break;
                case FK_SHA_FAIL:
                        g_set_status(ST_NOT_DONE);
                        g_st.inject = true;
                        g_st.sha_verdict = sha_fail_value;
                        model_state = ST_NOT_DONE;
                        break;
                case FK_BOTH_FAIL:
                        g_set_status(ST_NOT_DONE);
                        g_st.inject = true;
                        g_st.aes_verdict = 1;
                        g_st.sha_verdict = sha_fail_value;
                        model_state = ST_NOT_DONE;
                        break;
                case FK_KAT_CORRUPT:
                case FK_KAT_BOTH:
                        g_set_status(ST_NOT_DONE);
                        kat_armed = true;
                        model_state = ST_NOT_DONE;
                        break;
                case FK_PRESET_FAILED:
                        g_set_status(ST_FAIL);
                        model_state = ST_FAIL;
                        break;
                case FK_PRESET_PASSED:
                        g_set_status(ST_OK);
                        model_state = ST_OK;
                        break;
                }
        }

        // what the first gated call in NOT_RUN will turn the state into
        int verdict_of_pending() const { return (pending_fault == FK_NONE_PASS) ? ST_OK : ST_FAIL; }

        void execute(const Plan &p, Env &e, RunResult &r) override;
        void do_entry(const GEntry &ge, const Op &o, Env &e, RunResult &r);
};

// ---- KAT corruption stubs: same signatures as the kernels, flip one output bit while armed and inside the self-test window
static void *kat_real[10];
static void **kat_slot[10];
extern "C" {
static int kat_cbc_enc128(void *in, uint8_t *iv, uint8_t *keys, void *out, uint64_t len)
{
        int rc = ((int (*)(void *, uint8_t *, uint8_t *, void *, uint64_t)) kat_real[0])(in, iv, keys, out, len);
        if (FipsGateSim::kat_armed && g_st.in_window && len) {
                ((uint8_t *) out)[0] ^= 1;
                if (FipsGateSim::kat_transient)
                        FipsGateSim::kat_armed = false;
        }
        return rc;
}
static void kat_cbc_dec256(void *in, uint8_t *iv, uint8_t *keys, void *out, uint64_t len)
{
        ((void (*)(void *, uint8_t *, uint8_t *, void *, uint64_t)) kat_real[1])(in, iv, keys, out, len);
        if (FipsGateSim::kat_armed && g_st.in_window && len) {
                ((uint8_t *) out)[len - 1] ^= 0x80;
                if (FipsGateSim::kat_transient)
                        FipsGateSim::kat_armed = false;
        }
}
static void kat_xts256_dec(uint8_t *k2, uint8_t *k1, uint8_t *tw, uint64_t n, const void *in, void *out)
{
        ((void (*)(uint8_t *, uint8_t *, uint8_t *, uint64_t, const void *, void *)) kat_real[2])(k2, k1, tw, n, in, out);
        if (FipsGateSim::kat_armed && g_st.in_window && n) {
                ((uint8_t *) out)[n / 2] ^= 4;
                if (FipsGateSim::kat_transient)
                        FipsGateSim::kat_armed = false;
        }
}
static void kat_gcm_enc128(const void *kd, void *ctx, uint8_t *out, const uint8_t *in, uint64_t len, uint8_t *iv, const uint8_t *aad, uint64_t aadl, uint8_t *tag,
                           uint64_t tagl)
{
        ((void (*)(const void *, void *, uint8_t *, const uint8_t *, uint64_t, uint8_t *, const uint8_t *, uint64_t, uint8_t *, uint64_t)) kat_real[3])(
                kd, ctx, out, in, len, iv, aad, aadl, tag, tagl);
        if (FipsGateSim::kat_armed && g_st.in_window && tagl) {
                tag[0] ^= 2;
                if (FipsGateSim::kat_transient)
                        FipsGateSim::kat_armed = false;
        }
}
// short write: the streaming decrypt finalize delivers a correct but truncated tag (12 of the 16 bytes asked for)
static void kat_gcm_dec_fin_short(int which, const void *kd, void *ctx, uint8_t *tag, uint64_t tagl)
{
        if (FipsGateSim::kat_armed && g_st.in_window && tagl > 12) {
                uint8_t full[16];
                ((void (*)(const void *, void *, uint8_t *, uint64_t)) kat_real[which])(kd, ctx, full, 16);
                memcpy(tag, full, 12);
                if (FipsGateSim::kat_transient)
                        FipsGateSim::kat_armed = false;
                return;
        }
        ((void (*)(const void *, void *, uint8_t *, uint64_t)) kat_real[which])(kd, ctx, tag, tagl);
}
static void kat_gcm_dec128_fin(const void *kd, void *ctx, uint8_t *tag, uint64_t tagl) { kat_gcm_dec_fin_short(8, kd, ctx, tag, tagl); }
static void kat_gcm_dec256_fin(const void *kd, void *ctx, uint8_t *tag, uint64_t tagl) { kat_gcm_dec_fin_short(9, kd, ctx, tag, tagl); }
static void *kat_sha512_flush(void *mgr)
{
        void *c = ((void *(*) (void *) ) kat_real[4])(mgr);
        if (FipsGateSim::kat_armed && g_st.sha_entries > g_st.sha_exits && c) {
                ((ISAL_SHA512_HASH_CTX *) c)->job.result_digest[3] ^= 1;
                if (FipsGateSim::kat_transient)
                        FipsGateSim::kat_armed = false;
        }
        return c;
}
static void *kat_sha512_submit(void *m, void *c, const void *b, uint32_t l, int f)
{
        void *rc = ((void *(*) (void *, void *, const void *, uint32_t, int) ) kat_real[5])(m, c, b, l, f);
        if (FipsGateSim::kat_armed && g_st.sha_entries > g_st.sha_exits && rc) {
                ((ISAL_SHA512_HASH_CTX *) rc)->job.result_digest[3] ^= 1;
                if (FipsGateSim::kat_transient)
                        FipsGateSim::kat_armed = false;
        }
        return rc;
}
static void *kat_sha1_flush(void *mgr)
{
        void *c = ((void *(*) (void *) ) kat_real[6])(mgr);
        if (FipsGateSim::kat_armed && g_st.sha_entries > g_st.sha_exits && c) {
                ((ISAL_SHA1_HASH_CTX *) c)->job.result_digest[0] ^= 0x100;
                if (FipsGateSim::kat_transient)
                        FipsGateSim::kat_armed = false;
        }
        return c;
}
static void *kat_sha1_submit(void *m, void *c, const void *b, uint32_t l, int f)
{
        void *rc = ((void *(*) (void *, void *, const void *, uint32_t, int) ) kat_real[7])(m, c, b, l, f);
        if (FipsGateSim::kat_armed && g_st.sha_entries > g_st.sha_exits && rc) {
                ((ISAL_SHA1_HASH_CTX *) rc)->job.result_digest[0] ^= 0x100;
                if (FipsGateSim::kat_transient)
                        FipsGateSim::kat_armed = false;
        }
        return rc;
}
}
static bool kat_bound = false;
static void kat_bind()
{
        if (kat_bound)
                return;
        kat_bound = true;
        static const char *names[10] = { "_aes_cbc_enc_128",       "_aes_cbc_dec_256",    "_XTS_AES_256_dec",     "_aes_gcm_enc_128",          "_sha512_ctx_mgr_flush",
                                         "_sha512_ctx_mgr_submit", "_sha1_ctx_mgr_flush", "_sha1_ctx_mgr_submit", "_aes_gcm_dec_128_finalize", "_aes_gcm_dec_256_finalize" };
        for (int i = 0; i < 10; i++) {
                kat_slot[i] = (void **) libsym((std::string(names[i]) + "_dispatched").c_str());
                void (*di)(void) = (void (*)(void)) libsym((std::string(names[i]) + "_dispatch_init").c_str());
                di();
                kat_real[i] = *kat_slot[i];
        }
}
static void kat_arm(int target, bool on, bool both)
{
        static void *stubs[10] = { (void *) kat_cbc_enc128,    (void *) kat_cbc_dec256, (void *) kat_xts256_dec, (void *) kat_gcm_enc128,     (void *) kat_sha512_flush,
                                   (void *) kat_sha512_submit, (void *) kat_sha1_flush, (void *) kat_sha1_submit, (void *) kat_gcm_dec128_fin, (void *) kat_gcm_dec256_fin };
        // targets 0-3: one AES kernel; 4: SHA-512 (submit+flush); 5: SHA-1 (submit+flush); 6, 7: short tag write in the GCM-128 / GCM-256 streaming decrypt finalize
        for (int i = 0; i < 10; i++) {
                bool sel = i < 4 ? (i == target) : i >= 8 ? (i == target + 2) : target == 4 ? (i == 4 || i == 5) : target == 5 ? (i == 6 || i == 7) : false;
                if (both) // one AES kernel (target mod 4) and one SHA algorithm (target parity) at once
                        sel = i < 4 ? (i == target % 4) : i >= 8 ? false : (target & 1) ? (i == 4 || i == 5) : (i == 6 || i == 7);
                *kat_slot[i] = ((on || both) && sel) ? stubs[i] : kat_real[i];
        }
}

void FipsGateSim::execute(const Plan &p, Env &e, RunResult &r)
{
        if (entries.empty())
                return;
        e.call_cpu_limit_s = 30; // a gated call that never returns (self-tests stuck) is reported, not waited for
        kat_bind();
        kat_target = (int) (p.get("kat_target") % 8);
        sha_fail_value = p.get("sha_fail_value", 1) < 0 ? -1 : 1;
        kat_transient = p.get("kat_transient") != 0;
        if (kat_transient)
                r.cov.hit("fault_kat_corruption_transient");
        int fk = (int) (p.get("fault") % FK_N);
        apply_fault(fk, e, r);
        if (fk == FK_KAT_CORRUPT && kat_target >= 6)
                r.cov.hit("fault_kat_short_tag_write_in_gcm_dec_finalize");
        if (fk == FK_KAT_BOTH)
                kat_transient = false;
        kat_arm(kat_target, fk == FK_KAT_CORRUPT, fk == FK_KAT_BOTH);
        struct Cleanup {
                ~Cleanup()
                {
                        kat_arm(0, false, false);
                        FipsGateSim::kat_armed = false;
                        g_st.reset();
                        g_set_status(ST_NOT_DONE);
                }
        } cleanup;
        // the sha-side KAT stubs are only effective if the (real) aes tests passed first; kat stubs for the sha
        // kernels count the window by entries/exits of the sha wrapper.
        for (size_t i = 0; i < p.ops.size(); i++) {
                e.op_index = (int) i;
                const Op &o = p.ops[i];
                if (o.kind == OPG_INJECT) {
                        int f2 = (int) (o.a % FK_N);
                        apply_fault(f2, e, r);
                        if (f2 == FK_KAT_BOTH)
                                kat_transient = false;
                        kat_arm(kat_target, f2 == FK_KAT_CORRUPT, f2 == FK_KAT_BOTH);
                        e.ev(mix64(OPG_INJECT, (uint64_t) f2));
                        continue;
                }
                if ((o.d & 0x1f) == 0x11) {
                        // the status helper itself, called the way the C wrapper calls it, through the register-checking trampoline (C19: the C
                        // caller's own register saves must not be what hides a clobber). Not while RUNNING (it would wait for nobody).
                        static void *chk = libsym("asm_check_self_tests_status", false);
                        if (chk && *g_status != ST_RUNNING) {
                                uint32_t before = *g_status;
                                uint64_t rv = e.call("asm_check_self_tests_status", chk, {});
                                e.obs(0xf150, (uint32_t) rv);
                                if (before == ST_NOT_DONE && *g_status == ST_RUNNING)
                                        g_set_status(ST_NOT_DONE); // the helper claimed the tests for us: hand the claim back
                                r.cov.hit("probe_status_helper_called_directly");
                        }
                }
                const GEntry &ge = entries[o.a % entries.size()];
                do_entry(ge, o, e, r);
        }
}

void FipsGateSim::do_entry(const GEntry &ge, const Op &o, Env &e, RunResult &r)
{
        // ---------------------------------------------------------------- build valid arguments
        std::vector<uint8_t *> outs; // every range the call could legitimately write
        auto in = [&](size_t n, size_t align = 1, uint64_t salt = 0) {
                uint8_t *b = e.mem.alloc(n, align, (Place) ((o.d + salt) % 3), nullptr, "input", R_INPUT, (size_t) ((o.d >> 3) % 4) * align);
                Rng g(mix64(o.c, salt + 0x11), "gatein");
                g.fill(b, n);
                return b;
        };
        auto out = [&](size_t n, size_t align = 1, const char *nm = "output") {
                uint8_t *b = e.mem.alloc(n, align, (Place) ((o.d >> 5) % 3), &e.hidden, nm, R_OUTPUT, (size_t) ((o.d >> 7) % 4) * align);
                outs.push_back(b);
                return b;
        };
        int st_before = (int) *g_status;
        int aes_before = g_st.aes_entries, sha_before = g_st.sha_entries;
        bool xts_same = false;
        uint64_t rc = 0;
        const char *nm = ge.name.c_str();
        int k = ge.a;
        static const int keybytes3[3] = { 16, 24, 32 };
        static const int rounds3[3] = { 11, 13, 15 };
        auto finish_args = [&]() {
                for (uint8_t *b : outs)
                        e.mem.snapshot(b);
        };
        // internal (un-gated) helpers used to prepare valid objects
        static void *int_keyexp[3] = { libsym("_aes_keyexp_128"), libsym("_aes_keyexp_192"), libsym("_aes_keyexp_256") };
        static void *int_gcm_pre[2] = { libsym("_aes_gcm_pre_128"), libsym("_aes_gcm_pre_256") };
        static void *int_gcm_init[2] = { libsym("_aes_gcm_init_128"), libsym("_aes_gcm_init_256") };
        static void *int_hash_init[5] = { libsym("_sha1_ctx_mgr_init"), libsym("_sha256_ctx_mgr_init"), libsym("_sha512_ctx_mgr_init"), libsym("_md5_ctx_mgr_init"),
                                          libsym("_sm3_ctx_mgr_init") };
        static const size_t mgr_sz[5] = { sizeof(ISAL_SHA1_HASH_CTX_MGR), sizeof(ISAL_SHA256_HASH_CTX_MGR), sizeof(ISAL_SHA512_HASH_CTX_MGR), sizeof(ISAL_MD5_HASH_CTX_MGR),
                                          sizeof(ISAL_SM3_HASH_CTX_MGR) };
        static const size_t ctx_sz[5] = { sizeof(ISAL_SHA1_HASH_CTX), sizeof(ISAL_SHA256_HASH_CTX), sizeof(ISAL_SHA512_HASH_CTX), sizeof(ISAL_MD5_HASH_CTX),
                                          sizeof(ISAL_SM3_HASH_CTX) };
        static const size_t ctx_status_off[5] = { offsetof(ISAL_SHA1_HASH_CTX, status), offsetof(ISAL_SHA256_HASH_CTX, status), offsetof(ISAL_SHA512_HASH_CTX, status),
                                                  offsetof(ISAL_MD5_HASH_CTX, status), offsetof(ISAL_SM3_HASH_CTX, status) };
        static void *int_mh_init[3] = { libsym("_mh_sha1_init"), libsym("_mh_sha256_init"), libsym("_mh_sha1_murmur3_x64_128_init") };
        static const size_t mh_sz[3] = { sizeof(struct isal_mh_sha1_ctx), sizeof(struct isal_mh_sha256_ctx), sizeof(struct isal_mh_sha1_murmur3_x64_128_ctx) };

        auto direct = [&](void *fn, std::initializer_list<uint64_t> a) {
                // preparation through internal symbols does not go through the monitors' accounting
                e.call("(internal preparation)", fn, a);
        };

        // "forall otherwise-valid arguments" includes the degenerate ones: a quarter of the calls carry an empty message where
        // the API allows one (the gate must not depend on there being work to do)
        const bool degen = ((o.d >> 12) % 4) == 0;
        if (degen)
                r.cov.hit("probe_gate_call_with_empty_message");
        switch (ge.driver) {
        case D_CBC: {
                size_t len = degen ? 0 : 16 * (1 + o.b % 9);
                uint8_t *key = in(keybytes3[k], 1, 1);
                uint8_t *enc = e.mem.alloc(16 * 15, 16, START_FLUSH, &e.hidden, "enc schedule", R_OBJECT);
                uint8_t *dec = e.mem.alloc(16 * 15, 16, START_FLUSH, &e.hidden, "dec schedule", R_OBJECT);
                direct(int_keyexp[k], { U(key), U(enc), U(dec) });
                uint8_t *iv = in(16, 16, 2);
                uint8_t *src = in(len, 1, 3);
                uint8_t *dst = out(len);
                finish_args();
                e.secrets.clear();
                e.secrets.add_range(key, keybytes3[k] >= 32 ? 32 : 16, "the raw key");
                e.secrets.add_range(enc, 16 * rounds3[k], "an encryption round key");
                e.secrets.add_range(dec, 16 * rounds3[k], "a decryption round key");
                e.scan_secrets = true;
                rc = e.call(nm, ge.fn, { U(src), U(iv), U(ge.b ? dec : enc), U(dst), len });
                (void) rounds3;
                break;
        }
        case D_KEYEXP: {
                uint8_t *key = in(keybytes3[k], 1, 1);
                uint8_t *enc = out(16 * rounds3[k], 16, "enc schedule out");
                uint8_t *dec = out(16 * rounds3[k], 16, "dec schedule out");
                finish_args();
                e.secrets.clear();
                e.secrets.add_range(key, keybytes3[k] >= 32 ? 32 : 16, "the raw key");
                e.scan_secrets = true;
                rc = e.call(nm, ge.fn, { U(key), U(enc), U(dec) });
                break;
        }
        case D_GCM_PRE: {
                uint8_t *key = in(k ? 32 : 16, 1, 1);
                uint8_t *kd = out(sizeof(struct isal_gcm_key_data), 16, "gcm key data out");
                finish_args();
                rc = e.call(nm, ge.fn, { U(key), U(kd) });
                break;
        }
        case D_GCM_ONESHOT:
        case D_GCM_INIT:
        case D_GCM_UPDATE:
        case D_GCM_FINALIZE: {
                bool nt = (ge.b & 2) != 0;
                uint8_t *key = in(k ? 32 : 16, 1, 1);
                uint8_t *kd = e.mem.alloc(sizeof(struct isal_gcm_key_data), 16, START_FLUSH, &e.hidden, "gcm key data", R_OBJECT);
                direct(int_gcm_pre[k], { U(key), U(kd) });
                e.mem.snapshot(kd);
                uint8_t *iv = in(12, 1, 2);
                size_t aadl = o.b % 24;
                uint8_t *aad = in(aadl, 1, 3);
                size_t len = degen ? 0 : nt ? 64 * (o.c % 4) : (size_t) (o.c % 200);
                size_t al = nt ? 64 : 1;
                auto gcm_needles = [&]() {
                        e.secrets.clear();
                        e.secrets.add_range(key, k ? 32 : 16, "the raw key");
                        e.secrets.add_range(kd, 16 * (k ? 15 : 11), "an encryption round key");
                        e.secrets.add_range(kd + 16 * 15, sizeof(struct isal_gcm_key_data) - 16 * 15, "the GHASH key or one of its powers");
                        e.scan_secrets = true;
                };
                if (ge.driver == D_GCM_ONESHOT) {
                        uint8_t *gctx = out(sizeof(struct isal_gcm_context_data), 8, "gcm context");
                        uint8_t *src = in(len, al, 4);
                        uint8_t *dst = out(len, al);
                        uint8_t *tag = out(16, 1, "tag out");
                        finish_args();
                        gcm_needles();
                        rc = e.call(nm, ge.fn, { U(kd), U(gctx), U(dst), U(src), len, U(iv), U(aad), aadl, U(tag), 16 });
                } else if (ge.driver == D_GCM_INIT) {
                        uint8_t *gctx = out(sizeof(struct isal_gcm_context_data), 8, "gcm context");
                        finish_args();
                        gcm_needles();
                        rc = e.call(nm, ge.fn, { U(kd), U(gctx), U(iv), U(aad), aadl });
                } else {
                        uint8_t *gctx = e.mem.alloc(sizeof(struct isal_gcm_context_data), 8, START_FLUSH, &e.hidden, "gcm context", R_OBJECT);
                        direct(int_gcm_init[k], { U(kd), U(gctx), U(iv), U(aad), aadl });
                        outs.push_back(gctx);
                        if (ge.driver == D_GCM_UPDATE) {
                                uint8_t *src = in(len, al, 4);
                                uint8_t *dst = out(len, al);
                                finish_args();
                                gcm_needles();
                                rc = e.call(nm, ge.fn, { U(kd), U(gctx), U(dst), U(src), len });
                        } else {
                                uint8_t *tag = out(16, 1, "tag out");
                                finish_args();
                                gcm_needles();
                                rc = e.call(nm, ge.fn, { U(kd), U(gctx), U(tag), 16 });
                        }
                }
                break;
        }
        case D_XTS: {
                bool dec = ge.b & 1, expanded = (ge.b & 2) != 0;
                int kk = k ? 2 : 0; // index into 3-size tables
                size_t kb = keybytes3[kk];
                xts_same = (o.b % 3) == 0;
                uint8_t *key1 = in(kb, 1, 1);
                uint8_t *key2 = in(kb, 1, xts_same ? 1 : 2); // same salt -> same bytes
                size_t len = 16 + o.c % 100;
                uint8_t *tweak = in(16, 1, 3);
                uint8_t *src = in(len, 1, 4);
                uint8_t *dst = out(len);
                uint8_t *a1 = key1, *a2 = key2;
                if (expanded) {
                        uint8_t *e1 = e.mem.alloc(16 * 15, 16, START_FLUSH, &e.hidden, "key1 enc schedule", R_OBJECT);
                        uint8_t *d1 = e.mem.alloc(16 * 15, 16, START_FLUSH, &e.hidden, "key1 dec schedule", R_OBJECT);
                        uint8_t *e2 = e.mem.alloc(16 * 15, 16, START_FLUSH, &e.hidden, "key2 enc schedule", R_OBJECT);
                        uint8_t *d2 = e.mem.alloc(16 * 15, 16, START_FLUSH, &e.hidden, "key2 dec schedule", R_OBJECT);
                        direct(int_keyexp[kk], { U(key1), U(e1), U(d1) });
                        direct(int_keyexp[kk], { U(key2), U(e2), U(d2) });
                        a2 = e2;            // tweak key: encryption schedule
                        a1 = dec ? d1 : e1; // data key: decryption schedule for the decrypt entry points
                        if (xts_same)
                                r.cov.hit(dec ? "fault_xts_same_keys_expanded_dec_schedule" : "fault_xts_same_keys_expanded");
                } else if (xts_same)
                        r.cov.hit("fault_xts_same_keys_raw");
                finish_args();
                {
                        // needles: raw keys and every schedule of both keys (computed with the internal key expansion, not judged)
                        uint8_t *n1e = e.mem.alloc(16 * 15, 16, START_FLUSH, &e.hidden, "key1 enc schedule (needles)", R_OBJECT);
                        uint8_t *n1d = e.mem.alloc(16 * 15, 16, START_FLUSH, &e.hidden, "key1 dec schedule (needles)", R_OBJECT);
                        uint8_t *n2e = e.mem.alloc(16 * 15, 16, START_FLUSH, &e.hidden, "key2 enc schedule (needles)", R_OBJECT);
                        uint8_t *n2d = e.mem.alloc(16 * 15, 16, START_FLUSH, &e.hidden, "key2 dec schedule (needles)", R_OBJECT);
                        direct(int_keyexp[kk], { U(key1), U(n1e), U(n1d) });
                        direct(int_keyexp[kk], { U(key2), U(n2e), U(n2d) });
                        e.secrets.clear();
                        e.secrets.add_range(key1, kb >= 32 ? 32 : 16, "raw key1");
                        e.secrets.add_range(key2, kb >= 32 ? 32 : 16, "raw key2");
                        e.secrets.add_range(n1e, 16 * rounds3[kk], "a round key of key1");
                        e.secrets.add_range(n1d, 16 * rounds3[kk], "a decryption round key of key1");
                        e.secrets.add_range(n2e, 16 * rounds3[kk], "a round key of key2");
                        e.scan_secrets = true;
                }
                rc = e.call(nm, ge.fn, { U(a2), U(a1), U(tweak), len, U(src), U(dst) });
                break;
        }
        case D_HASH_INIT: {
                uint8_t *mgr = out(mgr_sz[k], 64, "manager");
                finish_args();
                rc = e.call(nm, ge.fn, { U(mgr) });
                break;
        }
        case D_HASH_SUBMIT:
        case D_HASH_FLUSH: {
                uint8_t *mgr = e.mem.alloc(mgr_sz[k], 64, START_FLUSH, &e.hidden, "manager", R_OBJECT);
                direct(int_hash_init[k], { U(mgr) });
                outs.push_back(mgr);
                uint8_t *slot = out(8, 8, "ctx_out slot");
                if (ge.driver == D_HASH_SUBMIT) {
                        uint8_t *ctx = e.mem.alloc(ctx_sz[k], 64, START_FLUSH, &e.hidden, "context", R_OBJECT);
                        *(uint32_t *) (ctx + ctx_status_off[k]) = ISAL_HASH_CTX_STS_COMPLETE;
                        *(uint32_t *) (ctx + ctx_status_off[k] + 4) = 0;
                        outs.push_back(ctx);
                        size_t len = degen ? 0 : o.c % 300;
                        uint8_t *msg = in(len, 1, 1);
                        finish_args();
                        rc = e.call(nm, ge.fn, { U(mgr), U(ctx), U(slot), U(msg), len, ISAL_HASH_ENTIRE });
                } else {
                        finish_args();
                        rc = e.call(nm, ge.fn, { U(mgr), U(slot) });
                }
                break;
        }
        case D_MH_INIT: {
                uint8_t *ctx = out(mh_sz[k], 8, "mh context");
                finish_args();
                if (k == 2)
                        rc = e.call(nm, ge.fn, { U(ctx), (uint64_t) o.c });
                else
                        rc = e.call(nm, ge.fn, { U(ctx) });
                break;
        }
        case D_MH_UPDATE:
        case D_MH_FINALIZE: {
                uint8_t *ctx = e.mem.alloc(mh_sz[k], 8, START_FLUSH, &e.hidden, "mh context", R_OBJECT);
                if (k == 2)
                        direct(int_mh_init[k], { U(ctx), 7 });
                else
                        direct(int_mh_init[k], { U(ctx) });
                outs.push_back(ctx);
                if (ge.driver == D_MH_UPDATE) {
                        size_t len = degen ? 0 : o.c % 3000;
                        uint8_t *msg = in(len, 1, 1);
                        finish_args();
                        rc = e.call(nm, ge.fn, { U(ctx), U(msg), len });
                } else {
                        uint8_t *dg = out(32, 4, "digest out");
                        uint8_t *mg = out(16, 4, "murmur out");
                        finish_args();
                        if (k == 2)
                                rc = e.call(nm, ge.fn, { U(ctx), U(dg), U(mg) });
                        else
                                rc = e.call(nm, ge.fn, { U(ctx), U(dg) });
                }
                break;
        }
        case D_ROLL_INIT: {
                uint8_t *stt = out(sizeof(struct isal_rh_state2), 8, "rolling state");
                finish_args();
                rc = e.call(nm, ge.fn, { U(stt), (uint64_t) (1 + o.c % 32) });
                break;
        }
        case D_ROLL_RESET: {
                uint8_t *stt = out(sizeof(struct isal_rh_state2), 8, "rolling state");
                ((struct isal_rh_state2 *) stt)->w = 16;
                uint8_t *ib = in(48, 1, 1);
                finish_args();
                rc = e.call(nm, ge.fn, { U(stt), U(ib) });
                break;
        }
        case D_ROLL_RUN: {
                uint8_t *stt = out(sizeof(struct isal_rh_state2), 8, "rolling state");
                ((struct isal_rh_state2 *) stt)->w = 16;
                size_t len = o.c % 500;
                uint8_t *b = in(len, 1, 1);
                uint8_t *off = out(4, 4, "offset out");
                uint8_t *mt = out(4, 4, "match out");
                finish_args();
                rc = e.call(nm, ge.fn, { U(stt), U(b), len, 0xff, 0x11, U(off), U(mt) });
                break;
        }
        case D_ROLL_MASK: {
                uint8_t *m = out(4, 4, "mask out");
                finish_args();
                rc = e.call(nm, ge.fn, { 1024, 3, U(m) });
                break;
        }
        case D_SELFTEST: rc = e.call(nm, ge.fn, {}); break;
        case D_VERSION:
        case D_VERSION_STR: rc = e.call(nm, ge.fn, {}); break;
        }
        int code = (int) (uint32_t) rc;
        e.obs(0x800, (uint64_t) code);
        e.ev(hash_str(nm));
        int aes_ran = g_st.aes_entries - aes_before, sha_ran = g_st.sha_entries - sha_before;
        int st_after = (int) *g_status;
        std::string site = ge.name;
        auto untouched = [&](const char *why) {
                for (uint8_t *b : outs) {
                        bool can = false;
                        std::string sres = e.mem.verify_one(b, &can);
                        if (!sres.empty())
                                e.violation("C13", "output-touched", "C13/output-touched/" + site,
                                            strfmt("%s returned %d (%s) but %s", nm, code, why, sres.c_str()));
                }
        };
        r.cov.state(mix64(hash_str(nm), mix64((uint64_t) st_before, (uint64_t) pending_fault * 4 + (xts_same ? 1 : 0))));
        r.cov.hit(strfmt("probe_entry_called_in_state_%s", state_name(st_before)));
        bool will_gate = false;
        switch (ge.cls) {
        case EC_NEUTRAL: return;
        case EC_NONAPPROVED:
                if (code != ISAL_CRYPTO_ERR_FIPS_INVALID_ALGO)
                        e.violation("C13", "non-approved-allowed", "C13/non-approved-allowed/" + site,
                                    strfmt("%s (non-approved algorithm) returned %d in a FIPS build, expected ISAL_CRYPTO_ERR_FIPS_INVALID_ALGO (%d)", nm, code,
                                           (int) ISAL_CRYPTO_ERR_FIPS_INVALID_ALGO));
                untouched("invalid algorithm");
                if (aes_ran || sha_ran || st_after != st_before)
                        e.violation("C13", "non-approved-ran-selftests", "C13/non-approved-ran-selftests/" + site, strfmt("%s changed the self-test state", nm));
                return;
        case EC_XTS:
                if (xts_same) {
                        if (code != ISAL_CRYPTO_ERR_XTS_SAME_KEYS)
                                e.violation("C13", "xts-same-keys-accepted", "C13/xts-same-keys-accepted/" + site,
                                            strfmt("%s accepted a data key identical to the tweak key (returned %d, state %s)", nm, code, state_name(st_before)));
                        untouched("identical XTS keys");
                        // whether the self-tests may run before the refusal is not specified; keep the model in sync
                        if (st_after != st_before)
                                model_state = st_after;
                        return;
                }
                will_gate = true;
                break;
        case EC_APPROVED:
        case EC_SELFTEST: will_gate = true; break;
        }
        if (!will_gate)
                return;
        // ---- gated entry point
        if (st_before == ST_FAIL) {
                if (code != ISAL_CRYPTO_ERR_SELF_TEST)
                        e.violation("C13", "missing-gate", "C13/missing-gate/" + site,
                                    strfmt("%s returned %d after the self-tests had failed, expected ISAL_CRYPTO_ERR_SELF_TEST (%d)", nm, code, (int) ISAL_CRYPTO_ERR_SELF_TEST));
                untouched("self-tests failed");
                if (aes_ran || sha_ran)
                        e.violation("C13", "selftests-rerun", "C13/selftests-rerun/" + site, strfmt("%s re-ran the self-tests in the FAILED state", nm));
        } else if (st_before == ST_OK) {
                if (code != 0)
                        e.violation("C13", "passed-but-refused", "C13/passed-but-refused/" + site, strfmt("%s returned %d although the self-tests had passed", nm, code));
                if (aes_ran || sha_ran)
                        e.violation("C13", "selftests-rerun", "C13/selftests-rerun/" + site, strfmt("%s re-ran the self-tests in the PASSED state", nm));
        } else { // NOT_RUN: this call must run them, exactly once, and honour the verdict
                int want_state = verdict_of_pending();
                if (aes_ran != 1 || sha_ran != 1)
                        e.violation("C13", "work-before-selftests", "C13/work-before-selftests/" + site,
                                    strfmt("%s was the first approved call (state NOT_RUN) but ran the self-tests %d/%d times (AES/SHA) and returned %d", nm, aes_ran, sha_ran,
                                           code));
                if (st_after != want_state)
                        e.violation("C13", "wrong-verdict", "C13/wrong-verdict/" + site,
                                    strfmt("after %s the self-test state is %s, expected %s (fault kind %d)", nm, state_name(st_after), state_name(want_state), pending_fault));
                if (want_state == ST_FAIL) {
                        if (code != ISAL_CRYPTO_ERR_SELF_TEST)
                                e.violation("C13", "missing-gate", "C13/missing-gate/" + site,
                                            strfmt("%s returned %d although the self-tests it triggered failed", nm, code));
                        untouched("self-tests failed in this call");
                } else if (code != 0)
                        e.violation("C13", "passed-but-refused", "C13/passed-but-refused/" + site, strfmt("%s returned %d although the self-tests passed", nm, code));
                model_state = st_after;
        }
}

} // namespace

Sim *make_fipsrace_sim() { return new FipsRaceSim(); }
Sim *make_fipsgate_sim() { return new FipsGateSim(); }

// Called by the driver before a workload that is not one of the FIPS simulations runs in the FIPS binary: the self-tests count as
// passed (as after any earlier library call of the process), so that a run does not depend on what the worker executed before.
void fips_mark_self_tests_passed(bool not_yet_run)
{
        volatile uint32_t *st = (volatile uint32_t *) libsym("self_test_status", false);
        if (st)
                *st = not_yet_run ? 2 : 0; // SELF_TEST_NOT_DONE / SELF_TEST_DONE_AND_OK
}
