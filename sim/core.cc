#include "core.h"
#include <cstdarg>
#include <fstream>
#include <sstream>

std::string strfmt(const char *fmt, ...)
{
        va_list ap;
        va_start(ap, fmt);
        char buf[4096];
        int n = vsnprintf(buf, sizeof buf, fmt, ap);
        va_end(ap);
        if (n < (int) sizeof buf)
                return std::string(buf, n < 0 ? 0 : n);
        std::string s(n + 1, 0);
        va_start(ap, fmt);
        vsnprintf(&s[0], n + 1, fmt, ap);
        va_end(ap);
        s.resize(n);
        return s;
}

std::string hex(const void *p, size_t n)
{
        static const char *d = "0123456789abcdef";
        std::string s;
        const uint8_t *b = (const uint8_t *) p;
        for (size_t i = 0; i < n; i++) {
                s += d[b[i] >> 4];
                s += d[b[i] & 15];
        }
        return s;
}

std::string json_escape(const std::string &s)
{
        std::string o;
        for (unsigned char c : s) {
                switch (c) {
                case '"': o += "\\\""; break;
                case '\\': o += "\\\\"; break;
                case '\n': o += "\\n"; break;
                case '\t': o += "\\t"; break;
                case '\r': o += "\\r"; break;
                default:
                        if (c < 0x20)
                                o += strfmt("\\u%04x", c);
                        else
                                o += (char) c;
                }
        }
        return o;
}

std::string plan_to_json(const Plan &p)
{
        std::string s = "{\"sim\":\"" + json_escape(p.sim) + "\",\"seed\":" + strfmt("%llu", (unsigned long long) p.seed) +
                        ",\"cfg\":{";
        bool first = true;
        for (auto &kv : p.cfg) {
                if (!first)
                        s += ",";
                first = false;
                s += "\"" + json_escape(kv.first) + "\":" + strfmt("%lld", (long long) kv.second);
        }
        s += "},\"ops\":[";
        for (size_t i = 0; i < p.ops.size(); i++) {
                const Op &o = p.ops[i];
                if (i)
                        s += ",";
                s += strfmt("[%d,%lld,%lld,%lld,%lld]", o.kind, (long long) o.a, (long long) o.b, (long long) o.c,
                            (long long) o.d);
        }
        s += "]}";
        return s;
}

namespace {
struct P {
        const std::string &t;
        size_t i = 0;
        std::string err;
        explicit P(const std::string &s) : t(s) {}
        void ws()
        {
                while (i < t.size() && (t[i] == ' ' || t[i] == '\n' || t[i] == '\t' || t[i] == '\r'))
                        i++;
        }
        bool val(JVal &v)
        {
                ws();
                if (i >= t.size()) {
                        err = "eof";
                        return false;
                }
                char c = t[i];
                if (c == '{') {
                        v.t = JVal::OBJ;
                        i++;
                        ws();
                        if (i < t.size() && t[i] == '}') {
                                i++;
                                return true;
                        }
                        while (true) {
                                JVal k;
                                ws();
                                if (!str(k.s))
                                        return false;
                                ws();
                                if (i >= t.size() || t[i] != ':') {
                                        err = "expected :";
                                        return false;
                                }
                                i++;
                                JVal x;
                                if (!val(x))
                                        return false;
                                v.o.emplace_back(k.s, std::move(x));
                                ws();
                                if (i < t.size() && t[i] == ',') {
                                        i++;
                                        continue;
                                }
                                if (i < t.size() && t[i] == '}') {
                                        i++;
                                        return true;
                                }
                                err = "expected , or }";
                                return false;
                        }
                }
                if (c == '[') {
                        v.t = JVal::ARR;
                        i++;
                        ws();
                        if (i < t.size() && t[i] == ']') {
                                i++;
                                return true;
                        }
                        while (true) {
                                JVal x;
                                if (!val(x))
                                        return false;
                                v.a.push_back(std::move(x));
                                ws();
                                if (i < t.size() && t[i] == ',') {
                                        i++;
                                        continue;
                                }
                                if (i < t.size() && t[i] == ']') {
                                        i++;
                                        return true;
                                }
                                err = "expected , or ]";
                                return false;
                        }
                }
                if (c == '"') {
                        v.t = JVal::STR;
                        return str(v.s);
                }
                if (!t.compare(i, 4, "true")) {
                        v.t = JVal::BOOL;
                        v.b = true;
                        i += 4;
                        return true;
                }
                if (!t.compare(i, 5, "false")) {
                        v.t = JVal::BOOL;
                        v.b = false;
                        i += 5;
                        return true;
                }
                if (!t.compare(i, 4, "null")) {
                        v.t = JVal::NUL;
                        i += 4;
                        return true;
                }
                // number
                size_t j = i;
                bool isint = true;
                if (j < t.size() && (t[j] == '-' || t[j] == '+'))
                        j++;
                while (j < t.size() && (isdigit((unsigned char) t[j]) || t[j] == '.' || t[j] == 'e' || t[j] == 'E' ||
                                        t[j] == '-' || t[j] == '+')) {
                        if (t[j] == '.' || t[j] == 'e' || t[j] == 'E')
                                isint = false;
                        j++;
                }
                if (j == i) {
                        err = "bad value";
                        return false;
                }
                std::string num = t.substr(i, j - i);
                v.t = JVal::NUM;
                v.is_int = isint;
                if (isint) {
                        if (num[0] == '-')
                                v.i = strtoll(num.c_str(), nullptr, 10);
                        else
                                v.i = (int64_t) strtoull(num.c_str(), nullptr, 10);
                        v.d = (double) v.i;
                } else {
                        v.d = strtod(num.c_str(), nullptr);
                        v.i = (int64_t) v.d;
                }
                i = j;
                return true;
        }
        bool str(std::string &s)
        {
                if (i >= t.size() || t[i] != '"') {
                        err = "expected string";
                        return false;
                }
                i++;
                s.clear();
                while (i < t.size() && t[i] != '"') {
                        if (t[i] == '\\' && i + 1 < t.size()) {
                                i++;
                                switch (t[i]) {
                                case 'n': s += '\n'; break;
                                case 't': s += '\t'; break;
                                case 'r': s += '\r'; break;
                                case 'u': {
                                        unsigned cp = strtoul(t.substr(i + 1, 4).c_str(), nullptr, 16);
                                        s += (char) cp;
                                        i += 4;
                                        break;
                                }
                                default: s += t[i];
                                }
                                i++;
                        } else
                                s += t[i++];
                }
                if (i >= t.size()) {
                        err = "unterminated string";
                        return false;
                }
                i++;
                return true;
        }
};
} // namespace

bool json_parse(const std::string &txt, JVal &out, std::string *err)
{
        P p(txt);
        bool ok = p.val(out);
        if (!ok && err)
                *err = p.err + strfmt(" at %zu", p.i);
        return ok;
}

static bool plan_from_jval(const JVal &v, Plan &p)
{
        if (v.t != JVal::OBJ)
                return false;
        p.sim = v.gets("sim");
        p.seed = (uint64_t) v.geti("seed");
        p.cfg.clear();
        p.ops.clear();
        if (const JVal *c = v.get("cfg"))
                for (auto &kv : c->o)
                        p.cfg[kv.first] = kv.second.i;
        if (const JVal *o = v.get("ops"))
                for (auto &e : o->a) {
                        Op op;
                        if (e.a.size() >= 5) {
                                op.kind = (int) e.a[0].i;
                                op.a = e.a[1].i;
                                op.b = e.a[2].i;
                                op.c = e.a[3].i;
                                op.d = e.a[4].i;
                        }
                        p.ops.push_back(op);
                }
        return true;
}

bool plan_from_json(const std::string &txt, Plan &p, std::string *err)
{
        JVal v;
        if (!json_parse(txt, v, err))
                return false;
        return plan_from_jval(v, p);
}

std::string read_file(const std::string &path)
{
        std::ifstream f(path, std::ios::binary);
        std::stringstream ss;
        ss << f.rdbuf();
        return ss.str();
}
bool write_file(const std::string &path, const std::string &txt)
{
        std::string tmp = path + ".tmp";
        {
                std::ofstream f(tmp, std::ios::binary | std::ios::trunc);
                if (!f)
                        return false;
                f << txt;
                if (!f)
                        return false;
        }
        return rename(tmp.c_str(), path.c_str()) == 0;
}
