// l2mgr.cc — L2 job-manager client: drives the CPU-specific lane schedulers
// (_<algo>_mb_mgr_{init,submit,flush}_<family>, sha512_sb_mgr_*_sse4) directly, without the ctx layer
// in between. The ctx layer is compiled C whose own prologue/epilogue can mask a clobbered
// callee-saved register of the assembly beneath it; here every assembly entry point is called
// through the trampoline itself (C19), on guard-paged jobs and managers (C08), with paired hidden
// state (C20). Jobs carry whole blocks only (that is the L2 contract); the oracle is the bare
// compression chain from the standard initial value (C01 / C06 at the scheduler level).
#include "sim.h"
#include "models.h"
#include <algorithm>

extern "C" {
#include "sha1_mb.h"
#include "sha256_mb.h"
#include "sha512_mb.h"
#include "md5_mb.h"
#include "sm3_mb.h"
}

namespace {

struct L2Fam {
        std::string name;
        int lanes;
        void *init, *submit, *flush;
};
struct L2Algo {
        Algo a;
        const char *name;
        size_t mgr_size, job_size, off_buffer, off_len, len_bytes, off_digest, digest_bytes, off_status, off_user, block;
        std::vector<L2Fam> fams;
};
#define L2D(A, T, NAME)                                                                                                                    \
        {                                                                                                                                  \
                A, NAME, sizeof(ISAL_##T##_MB_JOB_MGR), sizeof(ISAL_##T##_JOB), offsetof(ISAL_##T##_JOB, buffer), offsetof(ISAL_##T##_JOB, len),    \
                        sizeof(((ISAL_##T##_JOB *) 0)->len), offsetof(ISAL_##T##_JOB, result_digest), sizeof(((ISAL_##T##_JOB *) 0)->result_digest), \
                        offsetof(ISAL_##T##_JOB, status), offsetof(ISAL_##T##_JOB, user_data), ISAL_##T##_BLOCK_SIZE, {}                      \
        }
static L2Algo g_l2[A_N] = { L2D(A_SHA1, SHA1, "sha1"), L2D(A_SHA256, SHA256, "sha256"), L2D(A_SHA512, SHA512, "sha512"), L2D(A_MD5, MD5, "md5"),
                            L2D(A_SM3, SM3, "sm3") };
struct L2Spec {
        const char *fam, *init_fam;
        int lanes;
};
static const std::vector<L2Spec> l2_specs[A_N] = {
        { { "sse", "sse", 4 }, { "sse_ni", "sse", 4 }, { "avx", "sse", 4 }, { "avx2", "avx2", 8 }, { "avx512", "avx512", 16 }, { "avx512_ni", "avx512", 16 } },
        { { "sse", "sse", 4 }, { "sse_ni", "sse", 4 }, { "avx", "sse", 4 }, { "avx2", "avx2", 8 }, { "avx512", "avx512", 16 }, { "avx512_ni", "avx512", 16 } },
        { { "sse", "sse", 2 }, { "avx", "sse", 2 }, { "avx2", "avx2", 4 }, { "avx512", "avx512", 8 } },
        { { "sse", "sse", 8 }, { "avx", "sse", 8 }, { "avx2", "avx2", 16 }, { "avx512", "avx512", 32 } },
        { { "avx2", "avx2", 8 }, { "avx512", "avx512", 16 } },
};
static bool l2_loaded = false;
static void l2_load()
{
        if (l2_loaded)
                return;
        l2_loaded = true;
        for (int a = 0; a < A_N; a++) {
                for (auto &sp : l2_specs[a]) {
                        L2Fam f;
                        f.name = sp.fam;
                        f.lanes = sp.lanes;
                        f.init = libsym(strfmt("_%s_mb_mgr_init_%s", g_l2[a].name, sp.init_fam).c_str(), false);
                        f.submit = libsym(strfmt("_%s_mb_mgr_submit_%s", g_l2[a].name, sp.fam).c_str(), false);
                        if (!f.submit) // e.g. avx512_ni shares the avx512 submit routine
                                f.submit = libsym(strfmt("_%s_mb_mgr_submit_%s", g_l2[a].name, sp.init_fam).c_str(), false);
                        f.flush = libsym(strfmt("_%s_mb_mgr_flush_%s", g_l2[a].name, sp.fam).c_str(), false);
                        if (f.init && f.submit && f.flush)
                                g_l2[a].fams.push_back(f);
                }
        }
        // the single-buffer SHA-512 manager
        L2Fam sb;
        sb.name = "sb_sse4";
        sb.lanes = 0;
        sb.init = libsym("_sha512_sb_mgr_init_sse4", false);
        sb.submit = libsym("_sha512_sb_mgr_submit_sse4", false);
        sb.flush = libsym("_sha512_sb_mgr_flush_sse4", false);
        if (sb.init && sb.submit && sb.flush)
                g_l2[A_SHA512].fams.push_back(sb);
}

struct L2Job {
        uint8_t *job = nullptr;
        uint8_t *buf = nullptr;
        uint32_t blocks = 0;
        bool in_flight = false, done = false;
        std::vector<uint8_t> want;
};

struct L2Sim : Sim {
        const char *name() const override { return "l2mgr"; }
        void process_init() override { l2_load(); }
        std::vector<std::string> real_components() const override
        {
                return { "lane schedulers called directly: _<algo>_mb_mgr_{init,submit,flush}_<family> for every family, sha512_sb_mgr_*_sse4, and the kernels beneath them" };
        }
        std::vector<std::string> stub_components() const override { return { "the ctx layer (the simulation submits whole-block jobs itself)", "memory map", "register file / dead stack" }; }

        enum { OP_SUBMIT = 1, OP_FLUSH = 2, OP_DRAIN = 3 };

        Plan generate(uint64_t seed, const std::string &, bool thorough, uint64_t) override
        {
                Rng g(seed, "plan");
                Plan p;
                int a = (int) g.below(A_N);
                p.cfg["algo"] = a;
                p.cfg["family"] = (int64_t) g.below(64);
                int n = 3 + (int) g.below(thorough ? 80 : 50);
                int wflush = (int) g.below(30);
                for (int i = 0; i < n; i++) {
                        Op o;
                        int x = (int) g.below(100);
                        o.kind = x < 70 - wflush / 2 ? OP_SUBMIT : x < 95 ? OP_FLUSH : OP_DRAIN;
                        if (i < 2 && g.chance(1, 2))
                                o.kind = OP_FLUSH; // flush on an empty manager
                        o.a = (int64_t) g.below(1 << 16);
                        o.b = (int64_t) g.below(1 << 16);
                        o.c = (int64_t) g.below(1 << 16);
                        o.d = (int64_t) g.below(1 << 16);
                        p.ops.push_back(o);
                }
                return p;
        }
        std::string render(const Plan &p) const override
        {
                const L2Algo &d = g_l2[p.get("algo") % A_N];
                std::string s = strfmt("%s/%s L2 ops=[", d.name, d.fams.empty() ? "-" : d.fams[p.get("family") % d.fams.size()].name.c_str());
                for (size_t i = 0; i < p.ops.size() && i < 30; i++)
                        s += strfmt("%s%s", i ? " " : "", p.ops[i].kind == OP_SUBMIT ? strfmt("S(%lld)", (long long) p.ops[i].b % 9).c_str() : p.ops[i].kind == OP_FLUSH ? "F" : "D");
                return s + "]";
        }

        void execute(const Plan &p, Env &e, RunResult &r) override
        {
                const L2Algo &d = g_l2[p.get("algo") % A_N];
                if (d.fams.empty())
                        return;
                const L2Fam &f = d.fams[p.get("family") % d.fams.size()];
                std::string tag = std::string(d.name) + "/" + f.name + "/L2";
                e.ev(hash_str(tag.c_str()));
                uint8_t *mgr = e.mem.alloc(d.mgr_size, 64, (Place) (p.seed % 3), &e.hidden, "job manager", R_OBJECT, 64);
                std::string n_init = strfmt("_%s_mb_mgr_init(%s)", d.name, f.name.c_str()), n_submit = strfmt("_%s_mb_mgr_submit_%s", d.name, f.name.c_str()),
                            n_flush = strfmt("_%s_mb_mgr_flush_%s", d.name, f.name.c_str());
                n_submit = addr_to_sym((uintptr_t) f.submit);
                n_submit = n_submit.substr(0, n_submit.rfind('+'));
                if (f.name == "sb_sse4") {
                        n_init = "_sha512_sb_mgr_init_sse4";
                        n_submit = "_sha512_sb_mgr_submit_sse4";
                        n_flush = "_sha512_sb_mgr_flush_sse4";
                }
                e.call(n_init.c_str(), f.init, { U(mgr) });
                e.check_buf(mgr, n_init.c_str());
                std::vector<L2Job> jobs;
                int inflight = 0;
                auto returned = [&](uint64_t ret, int submitted, const char *via) {
                        if (!ret) {
                                e.obs(0xc00, 0xffff);
                                return;
                        }
                        int ji = -1;
                        for (size_t i = 0; i < jobs.size(); i++)
                                if ((uint64_t) (uintptr_t) jobs[i].job == ret)
                                        ji = (int) i;
                        e.obs(0xc00, (uint64_t) ji);
                        if (ji < 0) {
                                e.violation("C06", "foreign-pointer", "C06/foreign-pointer/" + tag, strfmt("%s: %s returned a pointer that is no submitted job", tag.c_str(), via), false);
                                return;
                        }
                        L2Job &j = jobs[ji];
                        if (ji != submitted && !j.in_flight)
                                e.violation("C06", "duplicate-return", "C06/duplicate-return/" + tag, strfmt("%s: %s returned job %d which is not in flight", tag.c_str(), via, ji), false);
                        if (j.in_flight) {
                                j.in_flight = false;
                                inflight--;
                        }
                        j.done = true;
                        // job->status is internal bookkeeping between scheduler and ctx layer (the single-buffer manager never sets it): not judged
                        e.obs_bytes(0xc02, j.job + d.off_digest, d.digest_bytes);
                        size_t dl = j.want.size();
                        if (memcmp(j.job + d.off_digest, j.want.data(), dl) != 0)
                                e.violation("C01", "digest", "C01/digest/" + tag,
                                            strfmt("%s: job %d (%u blocks) digest %s, compression chain gives %s", tag.c_str(), ji, j.blocks,
                                                   hex(j.job + d.off_digest, dl).c_str(), hex(j.want.data(), dl).c_str()));
                        e.check_buf(j.buf, via);
                        e.check_buf(j.job, via);
                        r.cov.hit("l2_job_completed_and_verified");
                };
                auto do_flush = [&](bool drain) {
                        int guard = 0;
                        do {
                                r.cov.hit(strfmt("probe_l2_flush_with_%d_live_lanes", std::min(inflight, 32)));
                                r.cov.state(mix64(mix64(0x12 + d.a * 8, hash_str(f.name.c_str())), (uint64_t) inflight * 2 + 1));
                                int before = inflight;
                                uint64_t ret = e.call(n_flush.c_str(), f.flush, { U(mgr) });
                                if (!ret && before > 0)
                                        e.violation("C06", "flush-null-while-held", "C06/flush-null-while-held/" + tag,
                                                    strfmt("%s: flush returned NULL while %d jobs are in flight", tag.c_str(), before), false);
                                if (ret && before == 0)
                                        e.violation("C06", "flush-nonnull-while-empty", "C06/flush-nonnull-while-empty/" + tag,
                                                    strfmt("%s: flush returned a job while none is in flight", tag.c_str()), false);
                                returned(ret, -1, n_flush.c_str());
                                e.check_buf(mgr, n_flush.c_str());
                                if (!ret)
                                        break;
                                if (++guard > 100) {
                                        e.violation("C06", "drain-not-terminating", "C06/drain-not-terminating/" + tag, "flush did not drain the manager", false);
                                        break;
                                }
                        } while (drain);
                };
                for (size_t oi = 0; oi < p.ops.size(); oi++) {
                        e.op_index = (int) oi;
                        const Op &o = p.ops[oi];
                        if (o.kind == OP_SUBMIT) {
                                L2Job j;
                                j.blocks = (o.b % 9 == 8) ? 20 + (uint32_t) (o.c % 40) : 1 + (uint32_t) (o.b % 9 % 8);
                                size_t n = (size_t) j.blocks * d.block;
                                j.buf = e.mem.alloc(n, 1, (Place) (o.d % 3), nullptr, "job buffer", R_INPUT, (size_t) ((o.d >> 2) % 64));
                                Rng g(mix64(p.seed, 0x12000 + oi), "l2data");
                                g.fill(j.buf, n);
                                e.mem.snapshot(j.buf);
                                j.job = e.mem.alloc(d.job_size, 64, (Place) ((o.d >> 8) % 3), &e.hidden, "job", R_OBJECT, 64 * (size_t) ((o.d >> 10) % 3));
                                // the caller (normally the ctx layer) defines buffer, len and the running digest
                                *(uint8_t **) (j.job + d.off_buffer) = j.buf;
                                if (d.len_bytes == 8)
                                        *(uint64_t *) (j.job + d.off_len) = j.blocks;
                                else
                                        *(uint32_t *) (j.job + d.off_len) = j.blocks;
                                RefHash ref(d.a);
                                // initial value in the library's word layout, reference chain over the blocks
                                if (d.a == A_SHA512)
                                        memcpy(j.job + d.off_digest, ref.h64, 64);
                                else
                                        memcpy(j.job + d.off_digest, ref.h32, d.a == A_SHA1 ? 20 : d.a == A_MD5 ? 16 : 32);
                                for (uint32_t b = 0; b < j.blocks; b++)
                                        ref.compress(j.buf + (size_t) b * d.block);
                                size_t dl = d.a == A_SHA512 ? 64 : d.a == A_SHA1 ? 20 : d.a == A_MD5 ? 16 : 32;
                                j.want.resize(dl);
                                if (d.a == A_SHA512)
                                        memcpy(j.want.data(), ref.h64, 64);
                                else
                                        memcpy(j.want.data(), ref.h32, dl);
                                jobs.push_back(j);
                                int ji = (int) jobs.size() - 1;
                                r.cov.hit(strfmt("probe_l2_submit_with_%d_live_lanes", std::min(inflight, 32)));
                                r.cov.state(mix64(mix64(0x12 + d.a * 8, hash_str(f.name.c_str())), (uint64_t) inflight * 2));
                                e.ev(mix64(OP_SUBMIT, j.blocks));
                                uint64_t ret = e.call(n_submit.c_str(), f.submit, { U(mgr), U(j.job) });
                                if (ret != (uint64_t) (uintptr_t) j.job) {
                                        jobs[ji].in_flight = true;
                                        inflight++;
                                }
                                returned(ret, ji, n_submit.c_str());
                                e.check_buf(mgr, n_submit.c_str());
                                if (inflight > f.lanes)
                                        e.violation("C06", "over-capacity", "C06/over-capacity/" + tag, strfmt("%s: %d jobs in flight, %d lanes", tag.c_str(), inflight, f.lanes), false);
                        } else
                                do_flush(o.kind == OP_DRAIN);
                }
                e.op_index = (int) p.ops.size();
                do_flush(true);
                for (size_t i = 0; i < jobs.size(); i++)
                        if (jobs[i].in_flight)
                                e.violation("C06", "stranded", "C06/stranded/" + tag, strfmt("%s: job %zu never came back", tag.c_str(), i), false);
                e.check_mem_all("end of run");
        }
};

} // namespace

Sim *make_l2mgr_sim() { return new L2Sim(); }
