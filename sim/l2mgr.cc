// l2mgr.cc — L2 job-manager client: drives the CPU-specific lane schedulers
// (_<algo>_mb_mgr_{init,submit,flush}_<family>, sha512_sb_mgr_*_sse4) directly, without the ctx layer
// in between. The ctx layer is compiled C whose own prologue/epilogue can mask a clobbered
// callee-saved register of the assembly beneath it; here every assembly entry point is called
// through the trampoline itself (C19), on guard-paged jobs and managers (C08), with paired hidden
// state (C20). Jobs carry whole blocks only (that is the L2 contract); the oracle is the bare
// compression chain from the standard initial value (C01 / C06 at the scheduler level).
#include "sim.h"
#include "models.h"
#include <algorithm>

extern "C" {
#include "sha1_mb.h"
#include "sha256_mb.h"
#include "sha512_mb.h"
#include "md5_mb.h"
#include "sm3_mb.h"
#include "mh_sha1.h"
#include "mh_sha256.h"
}
#include "golden_rolling_table.h"

namespace {

struct L2Fam {
        std::string name;
        int lanes;
        void *init, *submit, *flush;
};
struct L2Algo {
        Algo a;
        const char *name;
        size_t mgr_size, job_size, off_buffer, off_len, len_bytes, off_digest, digest_bytes, off_status, off_user, block;
        std::vector<L2Fam> fams;
};
#define L2D(A, T, NAME)                                                                                                                    \
        {                                                                                                                                  \
                A, NAME, sizeof(ISAL_##T##_MB_JOB_MGR), sizeof(ISAL_##T##_JOB), offsetof(ISAL_##T##_JOB, buffer), offsetof(ISAL_##T##_JOB, len),    \
                        sizeof(((ISAL_##T##_JOB *) 0)->len), offsetof(ISAL_##T##_JOB, result_digest), sizeof(((ISAL_##T##_JOB *) 0)->result_digest), \
                        offsetof(ISAL_##T##_JOB, status), offsetof(ISAL_##T##_JOB, user_data), ISAL_##T##_BLOCK_SIZE, {}                      \
        }
static L2Algo g_l2[A_N] = { L2D(A_SHA1, SHA1, "sha1"), L2D(A_SHA256, SHA256, "sha256"), L2D(A_SHA512, SHA512, "sha512"), L2D(A_MD5, MD5, "md5"),
                            L2D(A_SM3, SM3, "sm3") };
struct L2Spec {
        const char *fam, *init_fam;
        int lanes;
};
static const std::vector<L2Spec> l2_specs[A_N] = {
        { { "sse", "sse", 4 }, { "sse_ni", "sse", 4 }, { "avx", "sse", 4 }, { "avx2", "avx2", 8 }, { "avx512", "avx512", 16 }, { "avx512_ni", "avx512", 16 } },
        { { "sse", "sse", 4 }, { "sse_ni", "sse", 4 }, { "avx", "sse", 4 }, { "avx2", "avx2", 8 }, { "avx512", "avx512", 16 }, { "avx512_ni", "avx512", 16 } },
        { { "sse", "sse", 2 }, { "avx", "sse", 2 }, { "avx2", "avx2", 4 }, { "avx512", "avx512", 8 } },
        { { "sse", "sse", 8 }, { "avx", "sse", 8 }, { "avx2", "avx2", 16 }, { "avx512", "avx512", 32 } },
        { { "avx2", "avx2", 8 }, { "avx512", "avx512", 16 } },
};
static bool l2_loaded = false;
static void l2_load()
{
        if (l2_loaded)
                return;
        l2_loaded = true;
        for (int a = 0; a < A_N; a++) {
                for (auto &sp : l2_specs[a]) {
                        L2Fam f;
                        f.name = sp.fam;
                        f.lanes = sp.lanes;
                        f.init = libsym(strfmt("_%s_mb_mgr_init_%s", g_l2[a].name, sp.init_fam).c_str(), false);
                        f.submit = libsym(strfmt("_%s_mb_mgr_submit_%s", g_l2[a].name, sp.fam).c_str(), false);
                        if (!f.submit) // e.g. avx512_ni shares the avx512 submit routine
                                f.submit = libsym(strfmt("_%s_mb_mgr_submit_%s", g_l2[a].name, sp.init_fam).c_str(), false);
                        f.flush = libsym(strfmt("_%s_mb_mgr_flush_%s", g_l2[a].name, sp.fam).c_str(), false);
                        if (f.init && f.submit && f.flush)
                                g_l2[a].fams.push_back(f);
                }
        }
        // the single-buffer SHA-512 manager
        L2Fam sb;
        sb.name = "sb_sse4";
        sb.lanes = 0;
        sb.init = libsym("_sha512_sb_mgr_init_sse4", false);
        sb.submit = libsym("_sha512_sb_mgr_submit_sse4", false);
        sb.flush = libsym("_sha512_sb_mgr_flush_sse4", false);
        if (sb.init && sb.submit && sb.flush)
                g_l2[A_SHA512].fams.push_back(sb);
}

static const char *kfam[5] = { "base", "sse", "avx", "avx2", "avx512" };
static void *k_mh1_block[5], *k_mh256_block[5], *k_mur_block[5], *k_roll[3], *k_sha512_sse4;
static void kern_load()
{
        static bool done = false;
        if (done)
                return;
        done = true;
        for (int f = 0; f < 5; f++) {
                k_mh1_block[f] = libsym(strfmt("_mh_sha1_block_%s", kfam[f]).c_str(), false);
                k_mh256_block[f] = libsym(strfmt("_mh_sha256_block_%s", kfam[f]).c_str(), false);
                k_mur_block[f] = libsym(strfmt("_mh_sha1_murmur3_x64_128_block_%s", kfam[f]).c_str(), false);
        }
        k_roll[0] = libsym("_rolling_hash2_run_until_base", false);
        k_roll[1] = libsym("_rolling_hash2_run_until_00", false);
        k_roll[2] = libsym("_rolling_hash2_run_until_04", false);
        k_sha512_sse4 = libsym("_sha512_sse4", false);
}

static inline uint64_t rol64k(uint64_t x, int n) { return n ? (x << n) | (x >> (64 - n)) : x; }

struct L2Job {
        uint8_t *job = nullptr;
        uint8_t *buf = nullptr;
        uint32_t blocks = 0;
        bool in_flight = false, done = false;
        std::vector<uint8_t> want;
};

struct L2Sim : Sim {
        const char *name() const override { return "l2mgr"; }
        void process_init() override
        {
                l2_load();
                kern_load();
        }
        std::vector<std::string> real_components() const override
        {
                return { "lane schedulers called directly: _<algo>_mb_mgr_{init,submit,flush}_<family> for every family, sha512_sb_mgr_*_sse4, and the kernels beneath them" };
        }
        std::vector<std::string> stub_components() const override { return { "the ctx layer (the simulation submits whole-block jobs itself)", "memory map", "register file / dead stack" }; }

        enum { OP_SUBMIT = 1, OP_FLUSH = 2, OP_DRAIN = 3, OP_MHBLOCK = 4, OP_ROLLSCAN = 5, OP_SHA512SB = 6 };

        Plan generate(uint64_t seed, const std::string &, bool thorough, uint64_t) override
        {
                Rng g(seed, "plan");
                Plan p;
                int a = (int) g.below(A_N);
                p.cfg["algo"] = a;
                if (g.chance(1, 4)) {
                        // kernel mode: assembly block/scan routines that the library reaches only through C wrappers
                        p.cfg["mode"] = 1;
                        int n = 3 + (int) g.below(20);
                        for (int i = 0; i < n; i++) {
                                Op o;
                                int x = (int) g.below(10);
                                o.kind = x < 6 ? OP_MHBLOCK : x < 9 ? OP_ROLLSCAN : OP_SHA512SB;
                                o.a = (int64_t) g.below(1 << 16);
                                o.b = (int64_t) g.below(1 << 16);
                                o.c = (int64_t) g.below(1 << 16);
                                o.d = (int64_t) g.below(1 << 16);
                                p.ops.push_back(o);
                        }
                        return p;
                }
                p.cfg["family"] = (int64_t) g.below(64);
                int n = 3 + (int) g.below(thorough ? 80 : 50);
                int wflush = (int) g.below(30);
                for (int i = 0; i < n; i++) {
                        Op o;
                        int x = (int) g.below(100);
                        o.kind = x < 70 - wflush / 2 ? OP_SUBMIT : x < 95 ? OP_FLUSH : OP_DRAIN;
                        if (i < 2 && g.chance(1, 2))
                                o.kind = OP_FLUSH; // flush on an empty manager
                        o.a = (int64_t) g.below(1 << 16);
                        o.b = (int64_t) g.below(1 << 16);
                        o.c = (int64_t) g.below(1 << 16);
                        o.d = (int64_t) g.below(1 << 16);
                        p.ops.push_back(o);
                }
                return p;
        }
        std::string render(const Plan &p) const override
        {
                const L2Algo &d = g_l2[p.get("algo") % A_N];
                std::string s = strfmt("%s/%s L2 ops=[", d.name, d.fams.empty() ? "-" : d.fams[p.get("family") % d.fams.size()].name.c_str());
                for (size_t i = 0; i < p.ops.size() && i < 30; i++)
                        s += strfmt("%s%s", i ? " " : "", p.ops[i].kind == OP_SUBMIT ? strfmt("S(%lld)", (long long) p.ops[i].b % 9).c_str() : p.ops[i].kind == OP_FLUSH ? "F" : "D");
                return s + "]";
        }

        void kernel_ops(const Plan &p, Env &e, RunResult &r)
        {
                for (size_t oi = 0; oi < p.ops.size(); oi++) {
                        e.op_index = (int) oi;
                        const Op &o = p.ops[oi];
                        Mem::Mark mk = e.mem.mark();
                        Rng g(mix64(p.seed, 0x4e000 + oi), "kdata");
                        if (o.kind == OP_MHBLOCK) {
                                int kind = (int) (o.a % 3), fam = (int) ((o.a >> 2) % 5);
                                void *fn = kind == 0 ? k_mh1_block[fam] : kind == 1 ? k_mh256_block[fam] : k_mur_block[fam];
                                if (!fn)
                                        continue;
                                bool sha256 = kind == 1;
                                int nw = sha256 ? 8 : 5;
                                uint32_t nblk = 1 + (uint32_t) (o.b % 5);
                                size_t n = (size_t) nblk * 1024;
                                uint8_t *in = e.mem.alloc(n, 1, (Place) (o.d % 3), nullptr, "block input", R_INPUT, (size_t) ((o.d >> 2) % 64));
                                g.fill(in, n);
                                e.mem.snapshot(in);
                                uint32_t *dg = (uint32_t *) e.mem.alloc((size_t) nw * 16 * 4, 4, (Place) ((o.d >> 8) % 3), &e.hidden, "segment digests", R_OBJECT, 4 * (size_t) ((o.d >> 10) % 16));
                                uint8_t *frame = e.mem.alloc(1024, 64, (Place) ((o.d >> 14) % 2), &e.hidden, "frame buffer", R_OBJECT);
                                Algo a = sha256 ? A_SHA256 : A_SHA1;
                                std::vector<RefHash> seg(16, RefHash(a));
                                Rng ivr(mix64(p.seed, 0x1d + oi), "iv"); // arbitrary running digests, as in the middle of a stream
                                for (int sgi = 0; sgi < 16; sgi++)
                                        for (int w = 0; w < nw; w++) {
                                                seg[sgi].h32[w] = (uint32_t) ivr.next();
                                                dg[w * 16 + sgi] = seg[sgi].h32[w];
                                        }
                                for (uint32_t b = 0; b < nblk; b++)
                                        for (int sgi = 0; sgi < 16; sgi++) {
                                                uint8_t blk[64];
                                                for (int wd = 0; wd < 16; wd++)
                                                        memcpy(blk + 4 * wd, in + (size_t) b * 1024 + (size_t) (wd * 16 + sgi) * 4, 4);
                                                seg[sgi].compress(blk);
                                        }
                                std::string nm = strfmt("_%s_block_%s", kind == 0 ? "mh_sha1" : kind == 1 ? "mh_sha256" : "mh_sha1_murmur3_x64_128", kfam[fam]);
                                uint64_t mur[2] = { ivr.next(), ivr.next() }, mur0[2];
                                uint32_t *murp = nullptr;
                                if (kind == 2) {
                                        murp = (uint32_t *) e.mem.alloc(16, 4, END_FLUSH, &e.hidden, "murmur state", R_OBJECT);
                                        memcpy(murp, mur, 16);
                                        memcpy(mur0, mur, 16);
                                        // model: murmur3_x64_128 body over every 16-byte block
                                        const uint64_t c1 = 0x87c37b91114253d5ULL, c2 = 0x4cf5ad432745937fULL;
                                        for (size_t i = 0; i < n / 16; i++) {
                                                uint64_t k1, k2;
                                                memcpy(&k1, in + 16 * i, 8);
                                                memcpy(&k2, in + 16 * i + 8, 8);
                                                k1 *= c1;
                                                k1 = rol64k(k1, 31);
                                                k1 *= c2;
                                                mur[0] ^= k1;
                                                mur[0] = rol64k(mur[0], 27);
                                                mur[0] += mur[1];
                                                mur[0] = mur[0] * 5 + 0x52dce729;
                                                k2 *= c2;
                                                k2 = rol64k(k2, 33);
                                                k2 *= c1;
                                                mur[1] ^= k2;
                                                mur[1] = rol64k(mur[1], 31);
                                                mur[1] += mur[0];
                                                mur[1] = mur[1] * 5 + 0x38495ab5;
                                        }
                                        e.call(nm.c_str(), fn, { U(in), U(dg), U(frame), U(murp), nblk });
                                } else
                                        e.call(nm.c_str(), fn, { U(in), U(dg), U(frame), nblk });
                                e.obs_bytes(0xc10, dg, (size_t) nw * 64);
                                bool bad = false;
                                for (int sgi = 0; sgi < 16 && !bad; sgi++)
                                        for (int w = 0; w < nw; w++)
                                                if (dg[w * 16 + sgi] != seg[sgi].h32[w])
                                                        bad = true;
                                const char *prop = kind == 2 ? "C10" : "C05";
                                if (bad)
                                        e.violation(prop, "block-function", std::string(prop) + "/block-function/" + nm,
                                                    strfmt("%s over %u blocks: segment digests differ from 16 interleaved compression chains", nm.c_str(), nblk));
                                if (murp) {
                                        e.obs_bytes(0xc11, murp, 16);
                                        if (memcmp(murp, mur, 16) != 0)
                                                e.violation("C10", "block-function-murmur", "C10/block-function-murmur/" + nm,
                                                            strfmt("%s over %u blocks: murmur3 running state differs from the reference body", nm.c_str(), nblk));
                                        e.check_buf(murp, nm.c_str());
                                }
                                e.check_buf(in, nm.c_str());
                                e.check_buf(dg, nm.c_str());
                                e.check_buf(frame, nm.c_str());
                                r.cov.state(mix64(0xb10c + kind * 8 + fam, nblk));
                                r.cov.hit("kernel_mh_block_calls");
                        } else if (o.kind == OP_ROLLSCAN) {
                                int impl = (int) (o.a % 3);
                                if (!k_roll[impl])
                                        continue;
                                uint32_t w = 1 + (uint32_t) (o.b % 48);
                                uint32_t max = (uint32_t) (o.c % 600);
                                uint32_t start = max ? (uint32_t) ((o.c >> 10) % (max + 1)) : 0;
                                uint8_t *b1 = e.mem.alloc(max, 1, (Place) (o.d % 3), nullptr, "scan bytes (new)", R_INPUT, (size_t) ((o.d >> 2) % 64));
                                uint8_t *b2 = e.mem.alloc(max, 1, (Place) ((o.d >> 8) % 3), nullptr, "scan bytes (old)", R_INPUT, (size_t) ((o.d >> 10) % 64));
                                g.fill(b1, max);
                                g.fill(b2, max);
                                e.mem.snapshot(b1);
                                e.mem.snapshot(b2);
                                uint64_t *t1 = (uint64_t *) e.mem.alloc(2048, 8, START_FLUSH, nullptr, "table1", R_CONST);
                                uint64_t *t2 = (uint64_t *) e.mem.alloc(2048, 8, END_FLUSH, nullptr, "table2", R_CONST);
                                for (int i = 0; i < 256; i++) {
                                        t1[i] = golden_rolling_table[i];
                                        t2[i] = rol64k(golden_rolling_table[i], (int) w);
                                }
                                e.mem.snapshot(t1);
                                e.mem.snapshot(t2);
                                uint32_t *idx = (uint32_t *) e.mem.alloc(4, 4, END_FLUSH, nullptr, "idx", R_OUTPUT);
                                *idx = start;
                                uint64_t h0 = g.next();
                                int nbits = 1 + (int) (o.a >> 4) % 10;
                                uint64_t mask = 0;
                                for (int b = 0; b < nbits; b++)
                                        mask |= 1ull << (g.next() % 32);
                                uint64_t trig = (o.a & 0x4000) ? 0 : (g.next() & mask);
                                // model
                                uint64_t h = h0;
                                uint32_t i = start;
                                for (; i < max; i++) {
                                        h = rol64k(h, 1) ^ t1[b1[i]] ^ t2[b2[i]];
                                        if ((h & mask) == trig)
                                                break;
                                }
                                static const char *rn[3] = { "_rolling_hash2_run_until_base", "_rolling_hash2_run_until_00", "_rolling_hash2_run_until_04" };
                                uint64_t got = e.call(rn[impl], k_roll[impl], { U(idx), max, U(t1), U(t2), U(b1), U(b2), h0, mask, trig });
                                e.obs(0xc20, got);
                                e.obs(0xc21, *idx);
                                if (got != h || *idx != i)
                                        e.violation("C09", "scan-kernel", std::string("C09/scan-kernel/") + rn[impl],
                                                    strfmt("%s(idx=%u,max=%u,mask=%llx,trigger=%llx) returned hash %llx at idx %u; definition gives %llx at idx %u", rn[impl], start,
                                                           max, (unsigned long long) mask, (unsigned long long) trig, (unsigned long long) got, *idx, (unsigned long long) h, i));
                                for (void *bb : { (void *) b1, (void *) b2, (void *) t1, (void *) t2, (void *) idx })
                                        e.check_buf(bb, rn[impl]);
                                r.cov.state(mix64(0x5ca0 + impl, mix64(max - start < 3 ? max - start : 3, i < max)));
                                r.cov.hit("kernel_rolling_scan_calls");
                        } else if (o.kind == OP_SHA512SB && k_sha512_sse4) {
                                uint32_t nblk = (uint32_t) (o.b % 7); // 0 blocks: the kernel has an explicit "nothing to hash" exit
                                uint8_t *in = e.mem.alloc((size_t) nblk * 128, 1, (Place) (o.d % 3), nullptr, "block input", R_INPUT, (size_t) ((o.d >> 2) % 64));
                                g.fill(in, (size_t) nblk * 128);
                                e.mem.snapshot(in);
                                uint64_t *dg = (uint64_t *) e.mem.alloc(64, 8, (Place) ((o.d >> 8) % 3), &e.hidden, "digest", R_OBJECT, 8 * (size_t) ((o.d >> 10) % 8));
                                RefHash ref(A_SHA512);
                                for (int w = 0; w < 8; w++) {
                                        ref.h64[w] = g.next();
                                        dg[w] = ref.h64[w];
                                }
                                for (uint32_t b = 0; b < nblk; b++)
                                        ref.compress(in + (size_t) b * 128);
                                e.call("_sha512_sse4", k_sha512_sse4, { U(in), U(dg), nblk });
                                e.obs_bytes(0xc30, dg, 64);
                                if (memcmp(dg, ref.h64, 64) != 0)
                                        e.violation("C01", "digest", "C01/digest/sha512/sb_sse4/kernel", strfmt("_sha512_sse4 over %u blocks differs from the compression chain", nblk));
                                e.check_buf(in, "_sha512_sse4");
                                e.check_buf(dg, "_sha512_sse4");
                                r.cov.hit("kernel_sha512_sse4_calls");
                        }
                        e.mem.release(mk);
                }
        }

        void execute(const Plan &p, Env &e, RunResult &r) override
        {
                if (p.get("mode") == 1) {
                        kernel_ops(p, e, r);
                        return;
                }
                const L2Algo &d = g_l2[p.get("algo") % A_N];
                if (d.fams.empty())
                        return;
                const L2Fam &f = d.fams[p.get("family") % d.fams.size()];
                std::string tag = std::string(d.name) + "/" + f.name + "/L2";
                e.ev(hash_str(tag.c_str()));
                uint8_t *mgr = e.mem.alloc(d.mgr_size, 64, (Place) (p.seed % 3), &e.hidden, "job manager", R_OBJECT, 64);
                std::string n_init = strfmt("_%s_mb_mgr_init(%s)", d.name, f.name.c_str()), n_submit = strfmt("_%s_mb_mgr_submit_%s", d.name, f.name.c_str()),
                            n_flush = strfmt("_%s_mb_mgr_flush_%s", d.name, f.name.c_str());
                n_submit = addr_to_sym((uintptr_t) f.submit);
                n_submit = n_submit.substr(0, n_submit.rfind('+'));
                n_init = addr_to_sym((uintptr_t) f.init);
                n_init = n_init.substr(0, n_init.rfind('+'));
                if (f.name == "sb_sse4") {
                        n_init = "_sha512_sb_mgr_init_sse4";
                        n_submit = "_sha512_sb_mgr_submit_sse4";
                        n_flush = "_sha512_sb_mgr_flush_sse4";
                }
                e.call(n_init.c_str(), f.init, { U(mgr) });
                e.check_buf(mgr, n_init.c_str());
                std::vector<L2Job> jobs;
                int inflight = 0;
                auto returned = [&](uint64_t ret, int submitted, const char *via) {
                        if (!ret) {
                                e.obs(0xc00, 0xffff);
                                return;
                        }
                        int ji = -1;
                        for (size_t i = 0; i < jobs.size(); i++)
                                if ((uint64_t) (uintptr_t) jobs[i].job == ret)
                                        ji = (int) i;
                        e.obs(0xc00, (uint64_t) ji);
                        if (ji < 0) {
                                e.violation("C06", "foreign-pointer", "C06/foreign-pointer/" + tag, strfmt("%s: %s returned a pointer that is no submitted job", tag.c_str(), via), false);
                                return;
                        }
                        L2Job &j = jobs[ji];
                        if (ji != submitted && !j.in_flight)
                                e.violation("C06", "duplicate-return", "C06/duplicate-return/" + tag, strfmt("%s: %s returned job %d which is not in flight", tag.c_str(), via, ji), false);
                        if (j.in_flight) {
                                j.in_flight = false;
                                inflight--;
                        }
                        j.done = true;
                        // job->status is internal bookkeeping between scheduler and ctx layer (the single-buffer manager never sets it): not judged
                        e.obs_bytes(0xc02, j.job + d.off_digest, d.digest_bytes);
                        size_t dl = j.want.size();
                        if (memcmp(j.job + d.off_digest, j.want.data(), dl) != 0)
                                e.violation("C01", "digest", "C01/digest/" + tag,
                                            strfmt("%s: job %d (%u blocks) digest %s, compression chain gives %s", tag.c_str(), ji, j.blocks,
                                                   hex(j.job + d.off_digest, dl).c_str(), hex(j.want.data(), dl).c_str()));
                        e.check_buf(j.buf, via);
                        e.check_buf(j.job, via);
                        r.cov.hit("l2_job_completed_and_verified");
                };
                auto do_flush = [&](bool drain) {
                        int guard = 0;
                        do {
                                r.cov.hit(strfmt("probe_l2_flush_with_%d_live_lanes", std::min(inflight, 32)));
                                r.cov.state(mix64(mix64(0x12 + d.a * 8, hash_str(f.name.c_str())), (uint64_t) inflight * 2 + 1));
                                int before = inflight;
                                uint64_t ret = e.call(n_flush.c_str(), f.flush, { U(mgr) });
                                if (!ret && before > 0)
                                        e.violation("C06", "flush-null-while-held", "C06/flush-null-while-held/" + tag,
                                                    strfmt("%s: flush returned NULL while %d jobs are in flight", tag.c_str(), before), false);
                                if (ret && before == 0)
                                        e.violation("C06", "flush-nonnull-while-empty", "C06/flush-nonnull-while-empty/" + tag,
                                                    strfmt("%s: flush returned a job while none is in flight", tag.c_str()), false);
                                returned(ret, -1, n_flush.c_str());
                                e.check_buf(mgr, n_flush.c_str());
                                if (!ret)
                                        break;
                                if (++guard > 100) {
                                        e.violation("C06", "drain-not-terminating", "C06/drain-not-terminating/" + tag, "flush did not drain the manager", false);
                                        break;
                                }
                        } while (drain);
                };
                for (size_t oi = 0; oi < p.ops.size(); oi++) {
                        e.op_index = (int) oi;
                        const Op &o = p.ops[oi];
                        if (o.kind == OP_SUBMIT) {
                                L2Job j;
                                j.blocks = (o.b % 9 == 8) ? 20 + (uint32_t) (o.c % 40) : 1 + (uint32_t) (o.b % 9 % 8);
                                if ((o.c & 0x1f) == 0x1f)
                                        j.blocks = 0; // the schedulers have a len_is_0 path: the job completes with its digest untouched
                                size_t n = (size_t) j.blocks * d.block;
                                j.buf = e.mem.alloc(n, 1, (Place) (o.d % 3), nullptr, "job buffer", R_INPUT, (size_t) ((o.d >> 2) % 64));
                                Rng g(mix64(p.seed, 0x12000 + oi), "l2data");
                                g.fill(j.buf, n);
                                e.mem.snapshot(j.buf);
                                j.job = e.mem.alloc(d.job_size, 64, (Place) ((o.d >> 8) % 3), &e.hidden, "job", R_OBJECT, 64 * (size_t) ((o.d >> 10) % 3));
                                // the caller (normally the ctx layer) defines buffer, len and the running digest
                                *(uint8_t **) (j.job + d.off_buffer) = j.buf;
                                if (d.len_bytes == 8)
                                        *(uint64_t *) (j.job + d.off_len) = j.blocks;
                                else
                                        *(uint32_t *) (j.job + d.off_len) = j.blocks;
                                RefHash ref(d.a);
                                // initial value in the library's word layout, reference chain over the blocks
                                if (d.a == A_SHA512)
                                        memcpy(j.job + d.off_digest, ref.h64, 64);
                                else
                                        memcpy(j.job + d.off_digest, ref.h32, d.a == A_SHA1 ? 20 : d.a == A_MD5 ? 16 : 32);
                                for (uint32_t b = 0; b < j.blocks; b++)
                                        ref.compress(j.buf + (size_t) b * d.block);
                                size_t dl = d.a == A_SHA512 ? 64 : d.a == A_SHA1 ? 20 : d.a == A_MD5 ? 16 : 32;
                                j.want.resize(dl);
                                if (d.a == A_SHA512)
                                        memcpy(j.want.data(), ref.h64, 64);
                                else
                                        memcpy(j.want.data(), ref.h32, dl);
                                jobs.push_back(j);
                                int ji = (int) jobs.size() - 1;
                                r.cov.hit(strfmt("probe_l2_submit_with_%d_live_lanes", std::min(inflight, 32)));
                                r.cov.state(mix64(mix64(0x12 + d.a * 8, hash_str(f.name.c_str())), (uint64_t) inflight * 2));
                                e.ev(mix64(OP_SUBMIT, j.blocks));
                                uint64_t ret = e.call(n_submit.c_str(), f.submit, { U(mgr), U(j.job) });
                                if (ret != (uint64_t) (uintptr_t) j.job) {
                                        jobs[ji].in_flight = true;
                                        inflight++;
                                }
                                returned(ret, ji, n_submit.c_str());
                                e.check_buf(mgr, n_submit.c_str());
                                if (inflight > f.lanes)
                                        e.violation("C06", "over-capacity", "C06/over-capacity/" + tag, strfmt("%s: %d jobs in flight, %d lanes", tag.c_str(), inflight, f.lanes), false);
                        } else
                                do_flush(o.kind == OP_DRAIN);
                }
                e.op_index = (int) p.ops.size();
                do_flush(true);
                for (size_t i = 0; i < jobs.size(); i++)
                        if (jobs[i].in_flight)
                                e.violation("C06", "stranded", "C06/stranded/" + tag, strfmt("%s: job %zu never came back", tag.c_str(), i), false);
                e.check_mem_all("end of run");
        }
};

} // namespace

Sim *make_l2mgr_sim() { return new L2Sim(); }
