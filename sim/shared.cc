// shared.cc — SharedStateSim (C18): no hidden shared state.
//   mode 0  frozen statics: the library's writable static storage (.isal_rw, collected by the link
//           script) is write-protected while a mixed workload runs; only the dispatch slots (and the
//           self-test verdict) may be written, by whom is logged; any other store faults and is reported.
//   mode 1  first-call races: coroutine tasks make simultaneous first calls of dispatched entry points;
//           yield points are the simulated cpuid/xgetbv; results and final bindings must equal the
//           sequential ones and a slot may only ever hold its _mbinit or its final target.
//   mode 2  interleaved independent objects: two tasks, each with its own environment and objects, run
//           workload plans interleaved at call granularity; each history must equal its solo history.
#include "sim.h"
#include "sched.h"
#include <sys/mman.h>
#include <algorithm>
#include <memory>

extern "C" {
#include "sha256_mb.h"
#include "sha512_mb.h"
#include "md5_mb.h"
#include "mh_sha1.h"
#include "aes_keyexp.h"
}

Sim *get_sim_by_name(const std::string &n);
extern bool (*g_fault_filter)(uintptr_t addr, bool write);
extern void (*g_after_call_hook)(void);

namespace {

static uintptr_t rw_lo = 0, rw_hi = 0;
static bool rw_ok = false;
static bool frozen = false;
static std::vector<uintptr_t> unprotected_pages;
static std::map<std::string, uint64_t> *write_log = nullptr; // symbol -> count of admitted writes
static std::string last_bad_symbol;
static uintptr_t last_bad_addr = 0;

static bool allowed_symbol(const std::string &sym)
{
        size_t plus = sym.rfind('+');
        std::string name = sym.substr(0, plus);
        unsigned long off = plus == std::string::npos ? 0 : strtoul(sym.c_str() + plus + 1, nullptr, 10);
        if (name.size() > 11 && name.compare(name.size() - 11, 11, "_dispatched") == 0 && off < 8)
                return true;
        if (name == "self_test_status" && off < 4)
                return true;
        return false;
}

static bool rw_filter(uintptr_t addr, bool write)
{
        if (!frozen || !write || addr < rw_lo || addr >= rw_hi)
                return false;
        std::string sym = addr_to_sym(addr);
        if (!allowed_symbol(sym)) {
                last_bad_symbol = sym;
                last_bad_addr = addr;
                return false; // not admitted: the normal fault path reports it
        }
        uintptr_t page = addr & ~(uintptr_t) 4095;
        mprotect((void *) page, 4096, PROT_READ | PROT_WRITE);
        unprotected_pages.push_back(page);
        if (write_log)
                (*write_log)[std::string(g_fault_armed ? "by_library:" : "by_harness:") + sym.substr(0, sym.rfind('+'))]++;
        return true; // resume: the store re-executes
}

static void reprotect()
{
        if (!frozen)
                return;
        for (uintptr_t p : unprotected_pages)
                mprotect((void *) p, 4096, PROT_READ);
        unprotected_pages.clear();
}

static void freeze(bool on)
{
        if (!rw_ok)
                return;
        if (on) {
                mprotect((void *) rw_lo, rw_hi - rw_lo, PROT_READ);
                frozen = true;
        } else {
                frozen = false;
                mprotect((void *) rw_lo, rw_hi - rw_lo, PROT_READ | PROT_WRITE);
                unprotected_pages.clear();
        }
}

struct RaceEntry {
        const char *name; // dispatched internal entry
        int kind;         // argument builder
};
static const RaceEntry race_entries[] = { { "_sha1_ctx_mgr_init", 0 },   { "_sha256_ctx_mgr_init", 0 }, { "_sha512_ctx_mgr_init", 0 }, { "_md5_ctx_mgr_init", 0 },
                                          { "_sm3_ctx_mgr_init", 0 },    { "_aes_keyexp_128", 1 },      { "_aes_keyexp_192", 2 },      { "_aes_keyexp_256", 3 },
                                          { "_mh_sha1_update", 4 },      { "_mh_sha256_update", 5 } };
static const int N_RACE = sizeof(race_entries) / sizeof(race_entries[0]);

struct SharedSim : Sim {
        CoSched sched;
        std::unique_ptr<Env> env2[2];
        std::map<std::string, uint64_t> wlog;
        size_t inventory_syms = 0, inventory_bytes = 0;
        const char *name() const override { return "shared"; }
        void process_init() override
        {
                rw_ok = section_range(".isal_rw", &rw_lo, &rw_hi) && rw_hi > rw_lo && (rw_lo & 4095) == 0 && (rw_hi & 4095) == 0;
                if (!rw_ok) {
                        fprintf(stderr, "HARNESS: output section .isal_rw not found or not page aligned (link script missing?)\n");
                        exit(2);
                }
                auto syms = symbols_in(rw_lo, rw_hi);
                inventory_syms = syms.size();
                inventory_bytes = rw_hi - rw_lo;
                g_fault_filter = rw_filter;
                g_after_call_hook = reprotect;
                write_log = &wlog;
        }
        std::vector<std::string> real_components() const override
        {
                return { "the whole library as linked (--whole-archive): every object's .data/.bss/COMMON collected into .isal_rw",
                         "dispatch trampolines and resolvers (first-call races)", "hash managers, streaming objects and one-shot AES as workloads" };
        }
        std::vector<std::string> stub_components() const override
        {
                return { "threads: coroutine tasks interleaved at cpuid/xgetbv yield points (races) or at call boundaries (independent objects)",
                         "memory protection of the library's static storage", "CPUID answers" };
        }

        Plan generate(uint64_t seed, const std::string &focus, bool thorough, uint64_t run_index) override
        {
                Rng g(seed, "plan");
                Plan p;
                int mode = (int) (run_index % 10);
                mode = mode < 5 ? 0 : mode < 8 ? 1 : 2;
                p.cfg["mode"] = mode;
                static const char *subs[3] = { "hashmgr", "stream", "oneshot" };
                if (mode == 0) {
                        int sub = (int) g.below(3);
                        p.cfg["sub"] = sub;
                        p.cfg["bind_first"] = (int64_t) g.below(2); // 1: bind everything, then freeze; 0: freeze before any binding
                        Plan sp = get_sim_by_name(subs[sub])->generate(mix64(seed, 0x5b), "C18", thorough, run_index);
                        for (auto &kv : sp.cfg)
                                p.cfg["s_" + kv.first] = kv.second;
                        p.ops = sp.ops;
                } else if (mode == 1) {
                        int n = 2 + (int) g.below(5);
                        p.cfg["tasks"] = n;
                        p.cfg["simcpu"] = (int64_t) g.below(6); // 0 host, else a simulated profile (4, 5: the Avoton signature)
                        for (int i = 0; i < n; i++)
                                p.cfg[strfmt("t%d_entry", i)] = g.chance(1, 2) ? (int64_t) g.below(N_RACE) : p.get("t0_entry", (int64_t) g.below(N_RACE));
                        int nops = 10 + (int) g.below(100);
                        for (int i = 0; i < nops; i++) {
                                Op o;
                                o.kind = 1;
                                o.a = (int64_t) g.below(1 << 16);
                                p.ops.push_back(o);
                        }
                } else {
                        for (int t = 0; t < 2; t++) {
                                int sub = (int) g.below(3);
                                p.cfg[strfmt("sub%d", t)] = sub;
                                p.cfg[strfmt("seed%d", t)] = (int64_t) (mix64(seed, 0x70 + t) >> 1);
                        }
                        int nops = 20 + (int) g.below(200);
                        for (int i = 0; i < nops; i++) {
                                Op o;
                                o.kind = 1;
                                o.a = (int64_t) g.below(2);
                                o.b = (int64_t) (1 + g.below(4)); // burst length
                                p.ops.push_back(o);
                        }
                }
                return p;
        }
        std::string render(const Plan &p) const override
        {
                static const char *subs[3] = { "hashmgr", "stream", "oneshot" };
                int mode = (int) p.get("mode");
                if (mode == 0)
                        return strfmt("frozen-statics(%s) workload=%s ops=%zu", p.get("bind_first") ? "bound first" : "frozen before binding", subs[p.get("sub") % 3], p.ops.size());
                if (mode == 1) {
                        std::string s = strfmt("first-call race: %lld tasks on [", (long long) p.get("tasks"));
                        for (int i = 0; i < p.get("tasks"); i++)
                                s += strfmt("%s%s", i ? "," : "", race_entries[p.get(strfmt("t%d_entry", i).c_str()) % N_RACE].name);
                        return s + strfmt("] schedule choices=%zu", p.ops.size());
                }
                return strfmt("interleaved independent objects: %s || %s, %zu schedule choices", subs[p.get("sub0") % 3], subs[p.get("sub1") % 3], p.ops.size());
        }

        // ------------------------------------------------------------ mode 0
        void rearm_all(bool bind)
        {
                for (auto &s : symbols_matching("", "_dispatched")) {
                        std::string n = s.substr(0, s.size() - 11);
                        void **slot = (void **) libsym(s.c_str());
                        void *mbinit = libsym((n + "_mbinit").c_str(), false);
                        void (*di)(void) = (void (*)(void)) libsym((n + "_dispatch_init").c_str(), false);
                        if (!mbinit || !di)
                                continue;
                        *slot = mbinit;
                        if (bind)
                                di();
                }
        }

        void mode_frozen(const Plan &p, Env &e, RunResult &r)
        {
                static const char *subs[3] = { "hashmgr", "stream", "oneshot" };
                Sim *sub = get_sim_by_name(subs[p.get("sub") % 3]);
                Plan sp;
                sp.sim = sub->name();
                sp.seed = mix64(p.seed, 0x5b);
                for (auto &kv : p.cfg)
                        if (kv.first.compare(0, 2, "s_") == 0)
                                sp.cfg[kv.first.substr(2)] = kv.second;
                sp.ops = p.ops;
                bool bind_first = p.get("bind_first") != 0;
                g_simcpu = SimCPU(); // host
                rearm_all(bind_first);
                wlog.clear();
                last_bad_symbol.clear();
                freeze(true);
                r.cov.hit(bind_first ? "fault_statics_frozen_after_binding" : "fault_statics_frozen_before_binding");
                struct Unfreeze {
                        ~Unfreeze() { freeze(false); }
                } unf;
                try {
                        if (!bind_first) {
                                // real first calls through unbound slots while frozen: the only admitted library stores are the slots themselves
                                for (int k = 0; k < N_RACE; k++) {
                                        if (((p.seed >> k) & 1) == 0)
                                                continue;
                                        const RaceEntry &en = race_entries[k];
                                        void *pub = libsym(en.name);
                                        uint8_t *obj = e.mem.alloc(8192, 64, START_FLUSH, &e.hidden, "object", R_OBJECT);
                                        if (en.kind == 0)
                                                e.call(en.name, pub, { U(obj) });
                                        else if (en.kind <= 3) {
                                                uint8_t *key = e.mem.alloc(32, 1, END_FLUSH, &e.hidden, "raw key", R_INPUT);
                                                uint8_t *enc = e.mem.alloc(240, 16, END_FLUSH, &e.hidden, "enc schedule out", R_OUTPUT);
                                                uint8_t *dec = e.mem.alloc(240, 16, END_FLUSH, &e.hidden, "dec schedule out", R_OUTPUT);
                                                e.call(en.name, pub, { U(key), U(enc), U(dec) });
                                        } else {
                                                e.call(en.kind == 4 ? "_mh_sha1_init" : "_mh_sha256_init", libsym(en.kind == 4 ? "_mh_sha1_init" : "_mh_sha256_init"), { U(obj) });
                                                uint8_t *buf = e.mem.alloc(3000, 1, END_FLUSH, &e.hidden, "stream fragment", R_INPUT);
                                                e.call(en.name, pub, { U(obj), U(buf), 3000 });
                                        }
                                        r.cov.hit("probe_first_call_through_unbound_slot_while_frozen");
                                }
                        }
                        sub->execute(sp, e, r);
                } catch (RunAbort &) {
                        // a fault inside the frozen region is reported below; anything else is the sub-sim's business
                        bool rwfault = false;
                        for (auto &v : r.viols)
                                if (v.sig.find("C08/wild-fault") != std::string::npos && !last_bad_symbol.empty())
                                        rwfault = true;
                        if (!rwfault)
                                throw;
                }
                if (!last_bad_symbol.empty()) {
                        std::string nm = last_bad_symbol.substr(0, last_bad_symbol.rfind('+'));
                        // the generic fault path filed it as a wild fault: re-file under C18 with the symbol
                        for (auto it = r.viols.begin(); it != r.viols.end();)
                                if (it->sig.find("C08/wild-fault") != std::string::npos)
                                        it = r.viols.erase(it);
                                else
                                        ++it;
                        std::string bad = last_bad_symbol;
                        last_bad_symbol.clear();
                        e.violation("C18", "static-write", "C18/static-write/" + nm,
                                    strfmt("a library call wrote to static storage at %s (only dispatch bindings and the self-test verdict may be written)", bad.c_str()));
                }
                for (auto &kv : wlog) {
                        if (kv.first.compare(0, 11, "by_library:") == 0)
                                r.cov.hit("admitted_static_write_" + kv.first, kv.second);
                        else
                                r.cov.hit("admitted_static_write_by_harness_binding_a_slot", kv.second);
                        e.ev(mix64(hash_str(kv.first.c_str()), kv.second));
                }
                r.cov.state(mix64(0x18, mix64((uint64_t) p.get("sub"), (uint64_t) bind_first)));
        }

        // ------------------------------------------------------------ mode 1
        struct RaceArgs {
                alignas(64) uint8_t obj[8192];
                alignas(16) uint8_t key[32], enc[16 * 15], dec[16 * 15];
                uint8_t data[4096];
                uint8_t result[256];
                size_t result_len = 0;
        };
        RaceArgs rargs[CoSched::MAXT], solo;

        static void race_call(const RaceEntry &en, void *fn, RaceArgs &a, uint64_t seed)
        {
                Rng g(seed, "race");
                g.fill(a.key, 32);
                g.fill(a.data, sizeof a.data);
                memset(a.obj, 0xA5, sizeof a.obj);
                switch (en.kind) {
                case 0:
                        ((void (*)(void *)) fn)(a.obj);
                        a.result_len = 0; // manager internals are not part of the API; completion suffices
                        break;
                case 1:
                case 2:
                case 3: {
                        ((void (*)(const uint8_t *, uint8_t *, uint8_t *)) fn)(a.key, a.enc, a.dec);
                        int nr = en.kind == 1 ? 11 : en.kind == 2 ? 13 : 15;
                        memcpy(a.result, a.enc, (size_t) (16 * nr));
                        a.result_len = (size_t) (16 * nr);
                        break;
                }
                case 4: {
                        struct isal_mh_sha1_ctx *c = (struct isal_mh_sha1_ctx *) a.obj;
                        ((int (*)(void *)) libsym("_mh_sha1_init"))(c);
                        ((int (*)(void *, const void *, uint32_t)) fn)(c, a.data, 3000);
                        memcpy(a.result, c->mh_sha1_interim_digests, 200);
                        a.result_len = 200;
                        break;
                }
                default: {
                        ((int (*)(void *)) libsym("_mh_sha256_init"))(a.obj);
                        ((int (*)(void *, const void *, uint32_t)) fn)(a.obj, a.data, 3000);
                        a.result_len = 0;
                        break;
                }
                }
        }

        // The race model executes the binding store and the jmp through the slot as single steps, which is what the hardware does for an
        // 8-byte access that does not cross a cache line. A slot that lies across a 64-byte line is written in two bus cycles: a racing
        // first call can load half of the old and half of the new pointer. Checked over every slot of the linked archive on each run
        // (the layout is a property of the library's section alignment, not of the schedule).
        void check_slot_atomicity(Env &e, RunResult &r)
        {
                static std::vector<std::pair<std::string, uintptr_t>> slots;
                static bool done = false;
                if (!done) {
                        done = true;
                        for (auto &n : symbols_matching("", "_dispatched"))
                                slots.emplace_back(n, (uintptr_t) libsym(n.c_str()));
                }
                size_t unaligned = 0;
                for (auto &s : slots) {
                        if (s.second % 8)
                                unaligned++;
                        if ((s.second % 64) + 8 > 64)
                                e.violation("C18", "slot-across-cache-line", "C18/slot-across-cache-line/" + s.first,
                                            strfmt("the binding slot %s lies at 0x%lx, across a 64-byte line: the binding store and the jmp through it are not single "
                                                   "atomic accesses, a racing first call can see a torn pointer",
                                                   s.first.c_str(), (unsigned long) s.second));
                }
                r.cov.hit("probe_binding_slots_checked_for_line_crossing", slots.size());
                if (unaligned)
                        r.cov.hit("probe_binding_slots_not_8_byte_aligned", unaligned);
        }

        void mode_race(const Plan &p, Env &e, RunResult &r)
        {
                check_slot_atomicity(e, r);
                int n = (int) std::max<int64_t>(2, std::min<int64_t>(p.get("tasks"), 8));
                // simulated CPU (same for all tasks)
                SimCPU cpu;
                switch (p.get("simcpu") % 6) {
                case 0: break; // host pass-through
                case 1:
                        cpu.passthrough = false;
                        cpu.l1_eax = 0x000906ea;
                        cpu.l1_ecx = C1_SSE4_1 | C1_SSE4_2;
                        break;
                case 2:
                        cpu.passthrough = false;
                        cpu.l1_eax = 0x000906ea;
                        cpu.l1_ecx = C1_SSE4_1 | C1_SSE4_2 | C1_OSXSAVE | C1_AVX;
                        cpu.l7_ebx = C7_AVX2;
                        cpu.xcr0 = 7;
                        break;
                case 3:
                        cpu.passthrough = false;
                        cpu.l1_eax = 0x000906ea;
                        cpu.l1_ecx = C1_SSE4_1 | C1_SSE4_2 | C1_OSXSAVE | C1_AVX;
                        cpu.xcr0 = 7;
                        break;
                case 4: // Atom C2000 signature: the SHA-512 resolvers take their own branch on it
                        cpu.passthrough = false;
                        cpu.l1_eax = 0x000406d8;
                        cpu.l1_ecx = C1_SSE4_1 | C1_SSE4_2;
                        break;
                default:
                        cpu.passthrough = false;
                        cpu.l1_eax = 0x000406d0 | (uint32_t) (p.seed & 15);
                        cpu.l1_ecx = C1_SSE4_1 | C1_SSE4_2 | C1_OSXSAVE | C1_AVX;
                        cpu.xcr0 = 7;
                        break;
                }
                g_simcpu = cpu;
                r.cov.hit(strfmt("probe_race_cpu_profile_%d", (int) (p.get("simcpu") % 6)));
                // every binding slot of the library: a first call binds its own entry point and leaves every other binding alone
                static std::vector<std::pair<std::string, void **>> all_slots;
                if (all_slots.empty())
                        for (auto &sy : symbols_matching("", "_dispatched"))
                                all_slots.emplace_back(sy, (void **) libsym(sy.c_str()));
                std::vector<void *> others_before;
                for (auto &s : all_slots)
                        others_before.push_back(*s.second);
                std::string foreign;
                struct RestoreCpu {
                        ~RestoreCpu()
                        {
                                g_simcpu = SimCPU();
                                g_cpu_yield_hook = nullptr;
                        }
                } rc;
                std::vector<int> ent(n);
                std::set<int> distinct;
                for (int i = 0; i < n; i++) {
                        ent[i] = (int) (p.get(strfmt("t%d_entry", i).c_str()) % N_RACE);
                        distinct.insert(ent[i]);
                }
                // sequential reference: expected binding and result per entry
                std::map<int, void *> want_target;
                std::map<int, std::vector<uint8_t>> want_result;
                std::map<int, void **> slots;
                std::map<int, void *> mbinits, pubs;
                for (int k : distinct) {
                        const RaceEntry &en = race_entries[k];
                        void **slot = (void **) libsym((std::string(en.name) + "_dispatched").c_str());
                        void *mbinit = libsym((std::string(en.name) + "_mbinit").c_str());
                        void *pub = libsym(en.name);
                        slots[k] = slot;
                        mbinits[k] = mbinit;
                        pubs[k] = pub;
                        *slot = mbinit;
                        race_call(en, pub, solo, mix64(p.seed, (uint64_t) k));
                        want_target[k] = *slot;
                        want_result[k].assign(solo.result, solo.result + solo.result_len);
                        *slot = mbinit; // re-arm for the race
                }
                auto check_foreign = [&]() {
                        for (size_t i = 0; i < all_slots.size() && foreign.empty(); i++) {
                                bool raced = false;
                                for (int k : distinct)
                                        if (slots[k] == all_slots[i].second)
                                                raced = true;
                                if (!raced && *all_slots[i].second != others_before[i])
                                        foreign = strfmt("%s changed from %s to %s although no first call of that entry point was made", all_slots[i].first.c_str(),
                                                         addr_to_sym((uintptr_t) others_before[i]).c_str(), addr_to_sym((uintptr_t) *all_slots[i].second).c_str());
                        }
                };
                check_foreign();
                sched.reset();
                static SharedSim *self;
                self = this;
                // invariant at every yield: each raced slot holds its mbinit or its final target
                std::string bad_slot;
                auto check_slots = [&]() {
                        for (int k : distinct) {
                                void *v = *slots[k];
                                if (v != mbinits[k] && v != want_target[k] && bad_slot.empty())
                                        bad_slot = strfmt("%s_dispatched holds %s (neither its resolver trampoline nor the final target %s)", race_entries[k].name,
                                                          addr_to_sym((uintptr_t) v).c_str(), addr_to_sym((uintptr_t) want_target[k]).c_str());
                        }
                };
                g_cpu_yield_hook = [](int kind, uintptr_t site) {
                        if (self->sched.current() >= 0)
                                self->sched.yield(0x40 + (uint64_t) kind + (site & 0xfff) * 4);
                };
                for (int i = 0; i < n; i++) {
                        sched.spawn([this, i, &ent, &pubs, &p]() { race_call(race_entries[ent[i]], pubs[ent[i]], rargs[i], mix64(p.seed, (uint64_t) ent[i])); });
                }
                size_t opi = 0;
                int rr = 0;
                uint64_t steps = 0;
                while (!sched.all_done() && steps < 5000) {
                        std::vector<int> run = sched.runnable();
                        int pick = opi < p.ops.size() ? run[p.ops[opi++].a % run.size()] : run[rr++ % run.size()];
                        sched.step(pick);
                        steps++;
                        r.steps++;
                        check_slots();
                        check_foreign();
                        uint64_t sh = 0x181;
                        for (int k : distinct)
                                sh = mix64(sh, *slots[k] == mbinits[k] ? 1 : 2);
                        for (int i = 0; i < n; i++)
                                sh = mix64(sh, sched.task(i).done ? 0xd0e : sched.task(i).last_point + 1);
                        r.cov.state(sh);
                }
                g_cpu_yield_hook = nullptr;
                r.ev.add(sched.trace.h);
                r.cov.hit(strfmt("probe_race_tasks_%d", n));
                r.cov.hit(distinct.size() == 1 ? "probe_race_same_entry" : "probe_race_different_entries");
                if (!sched.all_done())
                        e.violation("C18", "race-liveness", "C18/race-liveness", "first-call race did not finish in 5000 scheduling steps");
                if (!bad_slot.empty())
                        e.violation("C18", "torn-binding", "C18/torn-binding", bad_slot);
                if (!foreign.empty()) {
                        // put the other bindings back so that the next run of this process starts from the same state
                        for (size_t i = 0; i < all_slots.size(); i++) {
                                bool raced = false;
                                for (int k : distinct)
                                        if (slots[k] == all_slots[i].second)
                                                raced = true;
                                if (!raced)
                                        *all_slots[i].second = others_before[i];
                        }
                        e.violation("C18", "foreign-binding", "C18/foreign-binding", foreign);
                }
                for (int k : distinct)
                        if (*slots[k] != want_target[k])
                                e.violation("C18", "wrong-binding", std::string("C18/wrong-binding/") + race_entries[k].name,
                                            strfmt("after racing first calls %s is bound to %s, sequentially it binds to %s", race_entries[k].name,
                                                   addr_to_sym((uintptr_t) *slots[k]).c_str(), addr_to_sym((uintptr_t) want_target[k]).c_str()));
                for (int i = 0; i < n; i++) {
                        const std::vector<uint8_t> &w = want_result[ent[i]];
                        e.obs_bytes(0xb00 + i, rargs[i].result, rargs[i].result_len);
                        if (rargs[i].result_len != w.size() || memcmp(rargs[i].result, w.data(), w.size()) != 0)
                                e.violation("C18", "race-result", std::string("C18/race-result/") + race_entries[ent[i]].name,
                                            strfmt("task %d's racing first call of %s produced a different result than the sequential call", i, race_entries[ent[i]].name));
                }
        }

        // ------------------------------------------------------------ mode 2
        void mode_interleaved(const Plan &p, Env &e, RunResult &r)
        {
                static const char *subs[3] = { "hashmgr", "stream", "oneshot" };
                Sim *sub[2];
                Plan sp[2];
                RunResult solo_r[2], inter_r[2];
                for (int t = 0; t < 2; t++) {
                        sub[t] = get_sim_by_name(subs[p.get(strfmt("sub%d", t).c_str()) % 3]);
                        uint64_t sd = (uint64_t) p.get(strfmt("seed%d", t).c_str());
                        sp[t] = sub[t]->generate(sd, "C18", false, sd);
                        sp[t].sim = sub[t]->name();
                        sp[t].seed = sd;
                        if (!env2[t])
                                env2[t].reset(new Env());
                }
                // solo histories (same API restriction as the interleaved execution)
                g_force_family_api = true;
                for (int t = 0; t < 2; t++) {
                        env2[t]->begin_run(mix64(p.seed, 0x50 + t), &solo_r[t]);
                        try {
                                sub[t]->execute(sp[t], *env2[t], solo_r[t]);
                        } catch (RunAbort &) {
                        }
                        env2[t]->end_run();
                }
                // interleaved
                g_force_family_api = true;
                struct Unforce {
                        ~Unforce() { g_force_family_api = false; }
                } unforce;
                sched.reset();
                static SharedSim *self;
                self = this;
                for (int t = 0; t < 2; t++) {
                        env2[t]->begin_run(mix64(p.seed, 0x50 + t), &inter_r[t]);
                        sched.spawn([this, t, &sub, &sp, &inter_r]() {
                                try {
                                        sub[t]->execute(sp[t], *env2[t], inter_r[t]);
                                } catch (RunAbort &) {
                                }
                        });
                }
                void (*saved_hook)(void) = g_after_call_hook;
                g_after_call_hook = []() {
                        if (self->sched.current() >= 0)
                                self->sched.yield(0x77);
                };
                size_t opi = 0;
                uint64_t steps = 0;
                int burst = 0, cur = 0;
                while (!sched.all_done() && steps < 2000000) {
                        std::vector<int> run = sched.runnable();
                        if (burst <= 0 || std::find(run.begin(), run.end(), cur) == run.end()) {
                                if (opi < p.ops.size()) {
                                        cur = run[p.ops[opi].a % run.size()];
                                        burst = (int) p.ops[opi].b;
                                        opi++;
                                } else {
                                        cur = run[steps % run.size()];
                                        burst = 1;
                                }
                        }
                        burst--;
                        sched.step(cur);
                        steps++;
                }
                g_after_call_hook = saved_hook;
                for (int t = 0; t < 2; t++)
                        env2[t]->end_run();
                r.steps += steps;
                r.ev.add(sched.trace.h);
                r.cov.hit("probe_interleaved_pairs");
                r.cov.state(mix64(0x182, mix64((uint64_t) p.get("sub0") * 3 + (uint64_t) p.get("sub1"), steps / 64)));
                for (int t = 0; t < 2; t++) {
                        e.obs(0xb10 + t, inter_r[t].obs.h);
                        if (inter_r[t].obs.h != solo_r[t].obs.h || inter_r[t].obs.n != solo_r[t].obs.n) {
                                size_t k = 0;
                                while (k < inter_r[t].obs_trace.size() && k < solo_r[t].obs_trace.size() && inter_r[t].obs_trace[k] == solo_r[t].obs_trace[k])
                                        k++;
                                e.violation("C18", "interference", std::string("C18/interference/") + sub[t]->name(),
                                            strfmt("task %d (%s) produced a different observable history when interleaved with task %d (%s) than alone: first difference at "
                                                   "observable event %zu",
                                                   t, sub[t]->name(), 1 - t, sub[1 - t]->name(), k));
                        }
                }
        }

        void execute(const Plan &p, Env &e, RunResult &r) override
        {
                switch (p.get("mode")) {
                case 0: mode_frozen(p, e, r); break;
                case 1: mode_race(p, e, r); break;
                default: mode_interleaved(p, e, r); break;
                }
        }
};

} // namespace

Sim *make_shared_sim() { return new SharedSim(); }
