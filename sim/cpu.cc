#include "cpu.h"
#include <sys/time.h>
#include <sys/mman.h>
#include <cpuid.h>
#include <signal.h>
#include <array>

extern "C" {
SimFrame *g_simframe;
}
SimCPU g_simcpu;
void (*g_cpu_yield_hook)(int kind, uintptr_t site) = nullptr;
void (*g_sched_hook)(uintptr_t site) = nullptr;
void (*g_after_call_hook)(void) = nullptr;

static const size_t DEAD = 64 * 1024;  // poisoned bytes below the call's rsp
static const size_t ABOVE = 32 + 64;   // 4 stack args + 64-byte canary
static const size_t STK = 512 * 1024;

static uint64_t host_xgetbv(uint32_t idx)
{
        uint32_t a, d;
        __asm__ volatile("xgetbv" : "=a"(a), "=d"(d) : "c"(idx));
        return ((uint64_t) d << 32) | a;
}

void SimCPU::set_host()
{
        uint32_t a, b, c, d;
        __cpuid_count(1, 0, a, b, c, d);
        l1_eax = a;
        l1_ebx = b;
        l1_ecx = c;
        l1_edx = d;
        __cpuid_count(7, 0, a, b, c, d);
        l7_ebx = b;
        l7_ecx = c;
        l7_edx = d;
        xcr0 = (l1_ecx & C1_OSXSAVE) ? host_xgetbv(0) : 0;
}

uint64_t SimCPU::projection() const
{
        uint64_t a = l1_ecx & (C1_SSE4_1 | C1_SSE4_2 | C1_OSXSAVE | C1_AVX);
        uint64_t avoton = ((l1_eax & 0xfffffff0u) == 0x000406d0u);
        uint64_t b = l7_ebx & (C7_AVX2 | C7_AVX512_G1 | C7_SHA);
        uint64_t c = l7_ecx & C7C_AVX512_G2;
        uint64_t x = xcr0 & 0xe6;
        return mix64(mix64(a, b), mix64(c, (x << 1) | avoton));
}

std::string SimCPU::str() const
{
        if (passthrough)
                return "host";
        std::string s;
        auto f = [&](bool on, const char *n) {
                if (on) {
                        if (!s.empty())
                                s += "+";
                        s += n;
                }
        };
        f(l1_ecx & C1_SSE4_1, "sse4.1");
        f(l1_ecx & C1_SSE4_2, "sse4.2");
        f(l1_ecx & C1_OSXSAVE, "osxsave");
        f(l1_ecx & C1_AVX, "avx");
        f(l7_ebx & C7_AVX2, "avx2");
        f(l7_ebx & C7_AVX512F, "f");
        f(l7_ebx & C7_AVX512DQ, "dq");
        f(l7_ebx & C7_AVX512CD, "cd");
        f(l7_ebx & C7_AVX512BW, "bw");
        f(l7_ebx & C7_AVX512VL, "vl");
        f(l7_ebx & C7_SHA, "sha");
        f(l7_ecx & C7C_VBMI2, "vbmi2");
        f(l7_ecx & C7C_GFNI, "gfni");
        f(l7_ecx & C7C_VAES, "vaes");
        f(l7_ecx & C7C_VPCLMULQDQ, "vpclmulqdq");
        f(l7_ecx & C7C_VNNI, "vnni");
        f(l7_ecx & C7C_BITALG, "bitalg");
        f(l7_ecx & C7C_VPOPCNTDQ, "vpopcntdq");
        f((l1_eax & 0xfffffff0u) == 0x000406d0u, "avoton");
        s += strfmt(" xcr0=0x%llx", (unsigned long long) xcr0);
        return s;
}

extern "C" void simcpu_cpuid_c(uint32_t leaf, uint32_t sub, uintptr_t site, uint32_t out[4])
{
        g_simcpu.n_cpuid++;
        if (g_cpu_yield_hook)
                g_cpu_yield_hook(0, site);
        if (g_simcpu.passthrough) {
                __cpuid_count(leaf, sub, out[0], out[1], out[2], out[3]);
                return;
        }
        out[0] = out[1] = out[2] = out[3] = 0;
        if (leaf == 0) {
                out[0] = 7;
                out[1] = 0x756e6547;
                out[3] = 0x49656e69;
                out[2] = 0x6c65746e;
        } else if (leaf == 1) {
                out[0] = g_simcpu.l1_eax;
                out[1] = g_simcpu.l1_ebx;
                out[2] = g_simcpu.l1_ecx;
                out[3] = g_simcpu.l1_edx;
        } else if (leaf == 7 && sub == 0) {
                out[1] = g_simcpu.l7_ebx;
                out[2] = g_simcpu.l7_ecx;
                out[3] = g_simcpu.l7_edx;
        }
}

extern "C" uint64_t simcpu_xgetbv_c(uint32_t idx, uintptr_t site)
{
        g_simcpu.n_xgetbv++;
        if (g_cpu_yield_hook)
                g_cpu_yield_hook(1, site);
        if (g_simcpu.passthrough)
                return host_xgetbv(idx);
        if (!(g_simcpu.l1_ecx & C1_OSXSAVE))
                g_simcpu.xgetbv_without_osxsave = true; // would #UD on the simulated machine
        return idx == 0 ? g_simcpu.xcr0 : 0;
}

// ---------------------------------------------------------------- unlocked read-modify-write = two bus cycles
// The cooperative scheduler executes every instruction atomically, which is how one core behaves. On the simulated multi-core
// machine only LOCKed (or implicitly locked) read-modify-write instructions are atomic: an unlocked cmpxchg/xadd/add/or/... on memory
// is a load and a later store, and other cores may run in between (an unlocked cmpxchg also writes the old value back when the
// comparison fails). When the instruction that follows a scheduling point is such an unlocked RMW it is therefore executed here in
// two halves with a scheduling point in the gap, and the real instruction is skipped. LOCKed instructions are left to the CPU.
void (*g_rmw_gap_hook)(uintptr_t site) = nullptr;
uint64_t g_rmw_split_count = 0, g_rmw_unmodelled_count = 0;
namespace {
// saved-register frame of the hook stub (simcall.asm): index by x86 register number
const int FR_OF_REG[16] = { 14, 12, 11, 13, -1, 8, 10, 9, 7, 6, 5, 4, 3, 2, 1, 0 };
const int FR_FLAGS = 15, FR_RET = 16;
uint64_t reg_get(uint64_t *fr, int r) { return r == 4 ? (uint64_t) (uintptr_t) &fr[17] : fr[FR_OF_REG[r]]; }
void reg_set(uint64_t *fr, int r, uint64_t v, int size)
{
        if (r == 4)
                return;
        if (size == 4)
                fr[FR_OF_REG[r]] = (uint32_t) v; // 32-bit writes zero-extend
        else
                fr[FR_OF_REG[r]] = v;
}
uint64_t parity_flag(uint64_t res)
{
        return (__builtin_popcount((unsigned) (res & 0xff)) & 1) ? 0 : 0x4;
}
uint64_t flags_arith(uint64_t a, uint64_t b, uint64_t res, bool sub, int size)
{
        int msb = size * 8 - 1;
        uint64_t mask = size == 8 ? ~0ull : ((1ull << (size * 8)) - 1);
        a &= mask, b &= mask, res &= mask;
        uint64_t f = 0;
        if (sub ? a < b : res < a)
                f |= 0x1; // CF
        f |= parity_flag(res);
        if ((a ^ b ^ res) & 0x10)
                f |= 0x10; // AF
        if (res == 0)
                f |= 0x40;
        if ((res >> msb) & 1)
                f |= 0x80;
        uint64_t of = sub ? ((a ^ b) & (a ^ res)) : (~(a ^ b) & (a ^ res));
        if ((of >> msb) & 1)
                f |= 0x800;
        return f;
}
uint64_t flags_logic(uint64_t res, int size)
{
        int msb = size * 8 - 1;
        uint64_t mask = size == 8 ? ~0ull : ((1ull << (size * 8)) - 1);
        res &= mask;
        return parity_flag(res) | (res == 0 ? 0x40 : 0) | (((res >> msb) & 1) ? 0x80 : 0);
}
uint64_t mem_load(uintptr_t ea, int size) { return size == 8 ? *(volatile uint64_t *) ea : *(volatile uint32_t *) ea; }
void mem_store(uintptr_t ea, uint64_t v, int size)
{
        if (size == 8)
                *(volatile uint64_t *) ea = v;
        else
                *(volatile uint32_t *) ea = (uint32_t) v;
}

// returns true when the instruction at 'site' was an unlocked RMW and has been executed here (frame updated, instruction skipped)
bool split_unlocked_rmw(uintptr_t site, uint64_t *fr)
{
        const uint8_t *p = (const uint8_t *) site;
        int i = 0, rex = 0;
        bool op16 = false;
        for (;; i++) {
                uint8_t b = p[i];
                if (b == 0xF0)
                        return false; // LOCK: atomic on the real machine too
                if (b == 0x66)
                        op16 = true;
                else if (b == 0x2E || b == 0x36 || b == 0x3E || b == 0x26 || b == 0xF2 || b == 0xF3)
                        ;
                else
                        break;
        }
        if ((p[i] & 0xF0) == 0x40)
                rex = p[i++];
        enum { NONE, CMPXCHG, XADD, ALU_RM_R, ALU_RM_IMM, INCDEC } kind = NONE;
        int alu = -1, immsz = 0;
        bool byteop = false;
        uint8_t op = p[i++];
        if (op == 0x0F) {
                uint8_t op2 = p[i++];
                if (op2 == 0xB0 || op2 == 0xB1)
                        kind = CMPXCHG, byteop = op2 == 0xB0;
                else if (op2 == 0xC0 || op2 == 0xC1)
                        kind = XADD, byteop = op2 == 0xC0;
                else
                        return false;
        } else if (op < 0x40 && (op & 7) <= 1) {
                kind = ALU_RM_R, alu = op >> 3, byteop = !(op & 1);
        } else if (op == 0x80 || op == 0x81 || op == 0x83) {
                kind = ALU_RM_IMM, byteop = op == 0x80, immsz = op == 0x81 ? 4 : 1;
        } else if (op == 0xFE || op == 0xFF) {
                kind = INCDEC, byteop = op == 0xFE;
        } else
                return false; // includes xchg (86/87: implicitly locked) and plain loads/stores
        uint8_t modrm = p[i++];
        int mod = modrm >> 6, regf = ((modrm >> 3) & 7) | ((rex & 4) ? 8 : 0), rm = modrm & 7;
        if (mod == 3)
                return false; // register destination
        if (kind == ALU_RM_IMM)
                alu = (modrm >> 3) & 7;
        if (kind == INCDEC) {
                if (((modrm >> 3) & 7) > 1)
                        return false; // call/jmp/push
                alu = ((modrm >> 3) & 7) == 0 ? 0 : 5;
        }
        if ((kind == ALU_RM_R || kind == ALU_RM_IMM) && (alu == 2 || alu == 3 || alu == 7))
                return false; // adc/sbb are not modelled; cmp does not write
        int size = byteop ? 1 : op16 ? 2 : (rex & 8) ? 8 : 4;
        if (size < 4 || rm == 4) { // byte/word operands and SIB addressing are not modelled: counted, not judged
                g_rmw_unmodelled_count++;
                return false;
        }
        uintptr_t ea;
        bool riprel = false;
        int64_t disp = 0;
        if (mod == 0 && rm == 5) {
                riprel = true;
                disp = *(const int32_t *) (p + i);
                i += 4;
        } else if (mod == 1) {
                disp = *(const int8_t *) (p + i);
                i += 1;
        } else if (mod == 2) {
                disp = *(const int32_t *) (p + i);
                i += 4;
        }
        int64_t imm = 0;
        if (kind == ALU_RM_IMM) {
                imm = immsz == 1 ? (int64_t) * (const int8_t *) (p + i) : (int64_t) * (const int32_t *) (p + i);
                i += immsz;
        }
        int len = i;
        if (riprel)
                ea = site + (uintptr_t) len + (uintptr_t) disp;
        else
                ea = (uintptr_t) (reg_get(fr, rm | ((rex & 1) ? 8 : 0)) + (uint64_t) disp);
        uint64_t mask = size == 8 ? ~0ull : 0xffffffffull;
        // ---- first bus cycle: the load
        uint64_t old = mem_load(ea, size);
        g_rmw_split_count++;
        if (g_rmw_gap_hook)
                g_rmw_gap_hook(site); // other cores run here
        // ---- second bus cycle: the store, computed from the value loaded earlier
        uint64_t fl;
        if (kind == CMPXCHG) {
                uint64_t acc = reg_get(fr, 0) & mask, src = reg_get(fr, regf) & mask;
                fl = flags_arith(acc, old, acc - old, true, size);
                if (acc == old)
                        mem_store(ea, src, size);
                else {
                        mem_store(ea, old, size); // the destination receives a write cycle regardless of the comparison
                        reg_set(fr, 0, old, size);
                }
        } else if (kind == XADD) {
                uint64_t src = reg_get(fr, regf) & mask, res = (old + src) & mask;
                fl = flags_arith(old, src, res, false, size);
                mem_store(ea, res, size);
                reg_set(fr, regf, old, size);
        } else {
                uint64_t src = kind == ALU_RM_R ? (reg_get(fr, regf) & mask) : kind == INCDEC ? 1 : ((uint64_t) imm & mask), res;
                switch (alu) {
                case 0: res = old + src; fl = flags_arith(old, src, res, false, size); break;
                case 5: res = old - src; fl = flags_arith(old, src, res, true, size); break;
                case 1: res = old | src; fl = flags_logic(res, size); break;
                case 4: res = old & src; fl = flags_logic(res, size); break;
                default: res = old ^ src; fl = flags_logic(res, size); break;
                }
                if (kind == INCDEC)
                        fl = (fl & ~1ull) | (fr[FR_FLAGS] & 1); // inc/dec leave CF alone
                mem_store(ea, res & mask, size);
        }
        fr[FR_FLAGS] = (fr[FR_FLAGS] & ~0x8D5ull) | (fl & 0x8D5);
        fr[FR_RET] += (uint64_t) len;
        return true;
}
} // namespace

extern "C" void sched_point_c(uintptr_t site, uint64_t *frame)
{
        if (!g_sched_hook)
                return;
        g_sched_hook(site);
        split_unlocked_rmw(site, frame);
}

// ---------------------------------------------------------------- asynchronous signal fault
// A signal that arrives while a library function runs makes the kernel build a signal frame below the red zone of whatever stack the
// thread is on (rsp - 128 downwards). Code that keeps live data below rsp - 128 loses it. The fault is simulated deterministically:
// the call is single-stepped (trap flag) and at the N-th instruction boundary, N from the hidden stream, the bytes [rsp - 128 - S,
// rsp - 128) of the call stack are overwritten with hidden-stream bytes; then the trap flag is cleared and the call runs on at full
// speed. The handler itself runs on the alternate stack.
static volatile uint64_t g_trap_count = 0, g_trap_fire_at = 0;
static volatile int g_trap_fired = 0;
static uint8_t g_trap_bytes[4096];
static size_t g_trap_len = 0;
static uintptr_t g_trap_lo = 0, g_trap_hi = 0;
static void on_trap(int, siginfo_t *, void *uc_)
{
        ucontext_t *uc = (ucontext_t *) uc_;
        if (!g_trap_fire_at) {
                uc->uc_mcontext.gregs[REG_EFL] &= ~0x100ll;
                return;
        }
        g_trap_count++;
        if (g_trap_count >= g_trap_fire_at) {
                uintptr_t rsp = (uintptr_t) uc->uc_mcontext.gregs[REG_RSP];
                uintptr_t top = rsp - 128, bot = top - g_trap_len;
                if (bot >= g_trap_lo && top <= g_trap_hi) {
                        memcpy((void *) bot, g_trap_bytes, g_trap_len);
                        g_trap_fired = 1;
                }
                g_trap_fire_at = 0;
                uc->uc_mcontext.gregs[REG_EFL] &= ~0x100ll;
        }
}
static void install_trap_handler()
{
        struct sigaction sa;
        memset(&sa, 0, sizeof sa);
        sa.sa_sigaction = on_trap;
        sa.sa_flags = SA_SIGINFO | SA_ONSTACK | SA_NODEFER;
        sigemptyset(&sa.sa_mask);
        sigaction(SIGTRAP, &sa, nullptr);
}

// ---------------------------------------------------------------- Env
Env::Env()
{
        uint8_t *m = (uint8_t *) mmap(nullptr, STK + 2 * 4096, PROT_NONE, MAP_PRIVATE | MAP_ANONYMOUS | MAP_NORESERVE, -1, 0);
        if (m == MAP_FAILED) {
                perror("mmap call stack");
                abort();
        }
        stk_lo = m + 4096;
        stk_hi = stk_lo + STK;
        mprotect(stk_lo, STK, PROT_READ | PROT_WRITE);
        base_rsp = ((uint64_t) (uintptr_t) stk_hi - 256) & ~(uint64_t) 63;
        call_rsp = base_rsp;
        poison_ref.resize(DEAD + ABOVE);
        frame = (SimFrame *) aligned_alloc(64, sizeof(SimFrame));
        memset(frame, 0, sizeof(SimFrame));
        install_fault_handler();
        install_trap_handler();
}
Env::~Env()
{
        munmap(stk_lo - 4096, STK + 2 * 4096);
        free(frame);
}

void Env::begin_run(uint64_t hidden_seed, RunResult *r)
{
        res = r;
        hidden.seed(mix64(hidden_seed, hash_str("hidden")));
        mem.reset();
        op_index = -1;
        ncalls = 0;
        secrets.clear();
        scan_secrets = false;
        tainted = false;
        call_cpu_limit_s = 0;
        cancel_is_benign = false;
        signal_faults = false;
        g_trap_fire_at = 0;
        hidden.fill(poison_ref.data(), poison_ref.size());
        // the stack phase is undeclared state too: the ABI only promises rsp % 16 == 8 at entry, so every run picks one
        // of the four phases modulo 64 (a 64-byte aligned trampoline stack would always enter at 56)
        stack_phase = (int) hidden.below(4);
        call_rsp = base_rsp - 16 * (uint64_t) stack_phase;
        r->cov.hit(strfmt("stack_phase_rsp_mod64_%d", (int) ((call_rsp - 8) % 64)));
        memcpy((uint8_t *) (uintptr_t) call_rsp - DEAD, poison_ref.data(), poison_ref.size());
}
void Env::end_run() { res = nullptr; }

extern std::string g_focus;
void Env::violation(const char *prop, const std::string &cls, const std::string &sig, const std::string &detail, bool model_ok_after)
{
        Violation v;
        v.prop = prop;
        v.cls = cls;
        v.sig = sig;
        v.detail = detail;
        v.op_index = op_index;
        v.ev_seq = res->ev.n;
        res->viols.push_back(v);
        res->ev.add(hash_str(sig.c_str()));
        if (g_focus == prop || g_focus.empty())
                throw RunAbort();
        if (!model_ok_after) {
                tainted = true;
                throw RunAbort();
        }
}

void Env::recycle_corrupt(uint8_t *obj, size_t n, uint64_t salt)
{
        unsigned dens = (unsigned) (salt % 3); // 1/8, 1/2 or 7/8 of the chunks
        unsigned thr = dens == 0 ? 32 : dens == 1 ? 128 : 224;
        for (size_t off = 0, k = 0; off < n; off += 64, k++) {
                if ((mix64(salt, k) & 0xff) >= thr)
                        continue;
                size_t len = std::min<size_t>(64, n - off);
                hidden.fill(obj + off, len);
        }
}

void Env::check_mem_all(const char *when)
{
        bool can = false;
        std::string s = mem.verify(&can);
        if (!s.empty())
                violation("C08", can ? "canary" : "input-modified", std::string("C08/") + (can ? "canary/" : "input-modified/") + when,
                          s + " (detected at " + when + ")");
}
void Env::check_buf(const void *p, const char *entry)
{
        bool can = false;
        std::string s = mem.verify_one(p, &can);
        if (!s.empty())
                violation("C08", can ? "canary" : "input-modified", std::string("C08/") + (can ? "canary/" : "input-modified/") + entry,
                          s + " after " + entry);
}

static const char *callee_names[6] = { "rbx", "rbp", "r12", "r13", "r14", "r15" };

// deprecated ("legacy") twins of isal_* entry points with identical argument lists
struct LegacyTwin {
        std::string name;
        void *fn;
        bool no_status; // twin returns void (or an unspecified value): its rax is not a status
};
static std::map<std::string, LegacyTwin> *g_legacy = nullptr;
extern void *libsym(const char *name, bool required);
static void legacy_init()
{
        g_legacy = new std::map<std::string, LegacyTwin>();
        auto add = [](const std::string &isal, const std::string &leg, bool no_status) {
                void *fn = libsym(leg.c_str(), false);
                if (fn && libsym(isal.c_str(), false))
                        (*g_legacy)[isal] = LegacyTwin{ leg, fn, no_status };
        };
        for (const char *b : { "128", "192", "256" }) {
                add(std::string("isal_aes_keyexp_") + b, std::string("aes_keyexp_") + b, true);
                add(std::string("isal_aes_cbc_enc_") + b, std::string("aes_cbc_enc_") + b, true);
                add(std::string("isal_aes_cbc_dec_") + b, std::string("aes_cbc_dec_") + b, true);
        }
        for (const char *b : { "128", "256" }) {
                for (const char *d : { "enc", "dec" }) {
                        std::string bd = std::string(d) + "_" + b;
                        for (const char *suf : { "", "_nt", "_update", "_update_nt", "_finalize" })
                                add("isal_aes_gcm_" + bd + suf, "aes_gcm_" + bd + suf, true);
                        add(std::string("isal_aes_xts_") + bd, std::string("XTS_AES_") + b + "_" + d, true);
                        add(std::string("isal_aes_xts_") + bd + "_expanded_key", std::string("XTS_AES_") + b + "_" + d + "_expanded_key", true);
                }
                add(std::string("isal_aes_gcm_init_") + b, std::string("aes_gcm_init_") + b, true);
                add(std::string("isal_aes_gcm_pre_") + b, std::string("aes_gcm_pre_") + b, true);
        }
        for (const char *m : { "mh_sha1", "mh_sha256", "mh_sha1_murmur3_x64_128" })
                for (const char *op : { "_init", "_update", "_finalize" })
                        add(std::string("isal_") + m + op, std::string(m) + op, false);
        add("isal_rolling_hash2_init", "rolling_hash2_init", false);
        add("isal_rolling_hash2_reset", "rolling_hash2_reset", true);
}

uint64_t Env::call(const char *entry, void *fn, std::initializer_list<uint64_t> args)
{
        SimFrame &f = *frame;
        bool no_status = false;
        if (legacy_api && entry[0] == 'i' && strncmp(entry, "isal_", 5) == 0) {
                if (!g_legacy)
                        legacy_init();
                auto it = g_legacy->find(entry);
                if (it != g_legacy->end()) {
                        entry = it->second.name.c_str();
                        fn = it->second.fn;
                        no_status = it->second.no_status;
                }
        }
        f.fn = fn;
        size_t n = 0, nst = 0;
        uint64_t *stack_args = (uint64_t *) (uintptr_t) call_rsp;
        for (uint64_t a : args) {
                if (n < 6)
                        f.args[n] = a;
                else
                        stack_args[nst++] = a;
                n++;
        }
        if (nst > 4) {
                fprintf(stderr, "Env::call: too many args\n");
                abort();
        }
        for (size_t j = n; j < 6; j++)
                f.args[j] = hidden.next();
        f.in_rax = hidden.next();
        f.in_r10 = hidden.next();
        f.in_r11 = hidden.next();
        f.in_flags = 0x202 | (hidden.next() & 0x8D5);
        for (int j = 0; j < 6; j++)
                f.in_callee[j] = hidden.next() | 1;
        f.call_rsp = call_rsp;
        f.poison = poison_regs ? 1 : 0;
        if (poison_regs) {
                hidden.fill(f.vec_in, sizeof f.vec_in);
                hidden.fill(f.in_k, sizeof f.in_k);
        }
        ncalls++;
        res->steps++;
        g_fault.valid = false;
        uint64_t rax = 0;
        if (signal_faults) {
                // one simulated signal per call, at an instruction boundary drawn log-uniformly from 1 .. 2048
                uint64_t hx = hidden.next();
                g_trap_count = 0;
                g_trap_fired = 0;
                g_trap_fire_at = 1 + (hx >> 8) % (1ull << (1 + hx % 11));
                g_trap_len = 512 + (size_t) ((hx >> 40) % 3500);
                hidden.fill(g_trap_bytes, g_trap_len);
                g_trap_lo = (uintptr_t) stk_lo;
                g_trap_hi = (uintptr_t) call_rsp;
                f.in_flags |= 0x100; // TF: the trampoline loads the flags right before the call
        }
        g_fault_armed = 1;
        if (sigsetjmp(g_fault_jmp, 1) == 0) {
                if (call_cpu_limit_s > 0) {
                        struct itimerval it;
                        memset(&it, 0, sizeof it);
                        it.it_value.tv_sec = (time_t) call_cpu_limit_s;
                        it.it_value.tv_usec = (suseconds_t) ((call_cpu_limit_s - (double) (time_t) call_cpu_limit_s) * 1e6);
                        setitimer(ITIMER_VIRTUAL, &it, nullptr);
                }
                rax = simcall(&f);
                g_fault_armed = 0;
                if (call_cpu_limit_s > 0) {
                        struct itimerval it;
                        memset(&it, 0, sizeof it);
                        setitimer(ITIMER_VIRTUAL, &it, nullptr);
                }
        } else {
                // a fault inside the library call
                g_fault_armed = 0;
                g_trap_fire_at = 0;
                if (g_after_call_hook)
                        g_after_call_hook();
                if (g_fault.signo == SIGVTALRM) {
                        struct itimerval it;
                        memset(&it, 0, sizeof it);
                        setitimer(ITIMER_VIRTUAL, &it, nullptr);
                        memcpy((uint8_t *) (uintptr_t) call_rsp - DEAD, poison_ref.data(), poison_ref.size());
                        if (cancel_is_benign) {
                                res->cov.hit("call_cancelled_by_the_harness_at_its_cpu_limit");
                                res->ev.add(0xca9ce1);
                                tainted = true;
                                throw RunAbort();
                        }
                        extern std::string addr_to_sym(uintptr_t);
                        Violation v;
                        v.prop = "C08";
                        v.cls = "no-return";
                        v.sig = std::string("C08/no-return/") + entry;
                        v.detail = strfmt("%s did not return within %.0f s of CPU time (last seen at %s) [fatal]", entry, call_cpu_limit_s, addr_to_sym(g_fault.rip).c_str());
                        v.op_index = op_index;
                        v.ev_seq = res->ev.n;
                        res->viols.push_back(v);
                        res->ev.add(hash_str(v.sig.c_str()));
                        throw RunAbort();
                }
                long off = 0;
                int bi = mem.find(g_fault.addr, &off);
                std::string d, sig, cls;
                if (g_fault.signo == SIGSEGV || g_fault.signo == SIGBUS) {
                        if (bi >= 0) {
                                const MemBuf &b = mem.buf(bi);
                                long rel = off < 0 ? off : off - (long) b.n; // distance outside the range
                                cls = g_fault.write ? "oob-write" : "oob-read";
                                d = strfmt("%s: %s %s '%s' (len %zu): touched byte at %s%ld", entry, g_fault.write ? "write" : "read",
                                           off < 0 ? "before" : "past", b.name, b.n, off < 0 ? "start" : "end+", off < 0 ? off : rel);
                                sig = std::string("C08/") + cls + "/" + entry;
                        } else {
                                cls = "wild-fault";
                                d = strfmt("%s: fault at an address outside every caller-supplied range (%s)", entry,
                                           g_fault.write ? "write" : "read");
                                sig = std::string("C08/wild-fault/") + entry;
                        }
                } else {
                        cls = g_fault.signo == SIGILL ? "crash-sigill" : "crash-sigfpe";
                        d = strfmt("%s: library call died with signal %d", entry, g_fault.signo);
                        sig = std::string("C08/") + cls + "/" + entry;
                }
                // restore the call stack image for later runs
                memcpy((uint8_t *) (uintptr_t) call_rsp - DEAD, poison_ref.data(), poison_ref.size());
                extern std::string addr_to_sym(uintptr_t);
                d += " at " + addr_to_sym(g_fault.rip);
                // fatal: every check counts a crash inside the library as its own violation
                {
                        Violation v;
                        v.prop = "C08";
                        v.cls = cls;
                        v.sig = sig;
                        v.detail = d + " [fatal]";
                        v.op_index = op_index;
                        v.ev_seq = res->ev.n;
                        res->viols.push_back(v);
                        res->ev.add(hash_str(sig.c_str()));
                }
                throw RunAbort();
        }
        if (signal_faults) {
                g_trap_fire_at = 0;
                if (g_trap_fired)
                        res->cov.hit("fault_signal_frame_written_below_the_red_zone_during_a_call");
        }
        calls_by_entry[entry]++;

        // ---- C19: callee-saved machine state
        if (f.out_rsp != call_rsp)
                violation("C19", "rsp", std::string("C19/rsp/") + entry,
                          strfmt("%s returned with rsp off by %lld", entry, (long long) (f.out_rsp - call_rsp)));
        for (int j = 0; j < 6; j++)
                if (f.out_callee[j] != f.in_callee[j])
                        violation("C19", callee_names[j], std::string("C19/") + callee_names[j] + "/" + entry,
                                  strfmt("%s clobbered %s", entry, callee_names[j]));
        if (f.out_flags & 0x400)
                violation("C19", "DF", std::string("C19/DF/") + entry, strfmt("%s returned with the direction flag set", entry));
        if (f.out_mxcsr != f.in_mxcsr && ((f.out_mxcsr ^ f.in_mxcsr) & ~0x3fu))
                violation("C19", "mxcsr", std::string("C19/mxcsr/") + entry, strfmt("%s changed MXCSR control bits", entry));
        if (f.out_fpcw != f.in_fpcw)
                violation("C19", "x87cw", std::string("C19/x87cw/") + entry, strfmt("%s changed the x87 control word", entry));
        // canary above the callee's frame (just above its stack arguments)
        {
                const uint8_t *above = (const uint8_t *) (uintptr_t) call_rsp + 8 * nst;
                const uint8_t *ref = poison_ref.data() + DEAD + 8 * nst;
                if (memcmp(above, ref, 64) != 0)
                        violation("C19", "frame-above", std::string("C19/frame-above/") + entry,
                                  strfmt("%s wrote above its own stack frame", entry));
        }
        // ---- dead stack: find dirtied 4 KiB chunks, scan for secrets (C14), restore poison
        {
                uint8_t *dead = (uint8_t *) (uintptr_t) call_rsp - DEAD;
                for (size_t c = 0; c < DEAD; c += 4096) {
                        if (memcmp(dead + c, poison_ref.data() + c, 4096) == 0)
                                continue;
                        if (scan_secrets && !secrets.needles.empty()) {
                                // scan this chunk (plus 15 bytes overlap into the next) at every byte offset
                                size_t end = c + 4096 + 15;
                                if (end > DEAD)
                                        end = DEAD;
                                for (size_t k = 0; k < secrets.needles.size(); k++) {
                                        const uint8_t *nd = secrets.needles[k].data();
                                        const uint8_t *p = dead + c, *e = dead + end - 15;
                                        while (p < e) {
                                                p = (const uint8_t *) memchr(p, nd[0], e - p);
                                                if (!p)
                                                        break;
                                                if (memcmp(p, nd, 16) == 0) {
                                                        std::string w = secrets.what[k];
                                                        // restore before reporting
                                                        memcpy(dead, poison_ref.data(), DEAD + ABOVE);
                                                        violation("C14", "stack-residue", std::string("C14/stack-residue/") + entry,
                                                                  strfmt("%s left %s in dead stack at rsp-%zu", entry, w.c_str(),
                                                                         (size_t) (DEAD - (p - dead))));
                                                        goto stack_done;
                                                }
                                                p++;
                                        }
                                }
                        }
                        memcpy(dead + c, poison_ref.data() + c, 4096);
                }
                if (nst)
                        memcpy((uint8_t *) (uintptr_t) call_rsp, poison_ref.data() + DEAD, 8 * nst);
        }
stack_done:
        // ---- C14: vector registers
        if (scan_secrets && !secrets.needles.empty()) {
                for (int r = 0; r < 32; r++)
                        for (int l = 0; l < 4; l++) {
                                const uint8_t *lane = f.vec_out + 64 * r + 16 * l;
                                for (size_t k = 0; k < secrets.needles.size(); k++)
                                        if (memcmp(lane, secrets.needles[k].data(), 16) == 0) {
                                                std::string w = secrets.what[k];
                                                violation("C14", "reg-residue", std::string("C14/reg-residue/") + entry,
                                                          strfmt("%s left %s in zmm%d[%d]", entry, w.c_str(), r, l));
                                        }
                        }
        }
        scan_secrets = false;
        if (g_after_call_hook)
                g_after_call_hook();
        return no_status ? 0 : rax;
}
