// compiled once per binary with -DSIM_FIPS=0/1
extern const bool g_build_is_fips;
const bool g_build_is_fips = SIM_FIPS;
