// stubs.cc — placeholders for simulations not linked into this binary yet.
#include "sim.h"
Sim *make_oneshot_sim() { return nullptr; }
Sim *make_shared_sim() { return nullptr; }
