// stubs.cc - every simulation is linked in; nothing left to stub.
#include "sim.h"
