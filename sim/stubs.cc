// stubs.cc — placeholders for simulations not linked into this binary yet.
#include "sim.h"
Sim *make_shared_sim() { return nullptr; }
