// cpu.h — CpuLayer: simcall frame, poisoned call stack, SimCPU (cpuid/xgetbv answers),
// and Env, the per-run environment every simulation works in.
#pragma once
#include "core.h"
#include "mem.h"

struct alignas(64) SimFrame {
        void *fn;               // 0
        uint64_t args[6];       // 8
        uint64_t in_rax;        // 56
        uint64_t in_r10;        // 64
        uint64_t in_r11;        // 72
        uint64_t in_flags;      // 80
        uint64_t in_callee[6];  // 88  rbx rbp r12 r13 r14 r15
        uint64_t call_rsp;      // 136
        uint64_t host_rsp;      // 144
        uint64_t out_rax;       // 152
        uint64_t out_rsp;       // 160
        uint64_t out_callee[6]; // 168
        uint64_t out_flags;     // 216
        uint32_t out_mxcsr;     // 224
        uint32_t out_fpcw;      // 228
        uint32_t in_mxcsr;      // 232
        uint32_t in_fpcw;       // 236
        uint32_t poison;        // 240
        uint32_t pad_[3];       // 244
        uint64_t in_k[8];       // 256
        uint64_t out_k[8];      // 320
        uint8_t vec_in[32 * 64];  // 384
        uint8_t vec_out[32 * 64]; // 2432
        uint64_t out_gpr[9];      // 4480  rdi rsi rdx rcx r8 r9 r10 r11 (+pad) as the callee left them
};
static_assert(offsetof(SimFrame, in_callee) == 88, "frame layout");
static_assert(offsetof(SimFrame, call_rsp) == 136, "frame layout");
static_assert(offsetof(SimFrame, out_callee) == 168, "frame layout");
static_assert(offsetof(SimFrame, out_flags) == 216, "frame layout");
static_assert(offsetof(SimFrame, poison) == 240, "frame layout");
static_assert(offsetof(SimFrame, in_k) == 256, "frame layout");
static_assert(offsetof(SimFrame, out_k) == 320, "frame layout");
static_assert(offsetof(SimFrame, vec_in) == 384, "frame layout");
static_assert(offsetof(SimFrame, vec_out) == 2432, "frame layout");
static_assert(offsetof(SimFrame, out_gpr) == 4480, "frame layout");

extern "C" uint64_t simcall(SimFrame *f);
extern "C" SimFrame *g_simframe;

// ---------------------------------------------------------------- SimCPU
struct SimCPU {
        bool passthrough = true;
        uint32_t l1_eax = 0, l1_ebx = 0, l1_ecx = 0, l1_edx = 0;
        uint32_t l7_ebx = 0, l7_ecx = 0, l7_edx = 0;
        uint64_t xcr0 = 0;
        // observation
        uint64_t n_cpuid = 0, n_xgetbv = 0;
        bool xgetbv_without_osxsave = false;
        void set_host();  // copy the host's answers into the simulated fields
        uint64_t projection() const; // hash of the bits the dispatchers read
        std::string str() const;
};
extern SimCPU g_simcpu;
// optional hook invoked at every simulated cpuid/xgetbv (coroutine yield point)
extern void (*g_cpu_yield_hook)(int kind, uintptr_t site);
// optional hook invoked at every isal_verif_sched_point
extern void (*g_sched_hook)(uintptr_t site);
// invoked between the load and the store of an unlocked read-modify-write instruction that follows a scheduling point
extern void (*g_rmw_gap_hook)(uintptr_t site);
extern uint64_t g_rmw_split_count, g_rmw_unmodelled_count;

// CPUID bit names the dispatchers test
enum : uint32_t {
        C1_SSE4_1 = 1u << 19, C1_SSE4_2 = 1u << 20, C1_OSXSAVE = 1u << 27, C1_AVX = 1u << 28,
        C1_AESNI = 1u << 25, C1_CLMUL = 1u << 1,
        C7_AVX2 = 1u << 5, C7_AVX512F = 1u << 16, C7_AVX512DQ = 1u << 17, C7_AVX512CD = 1u << 28,
        C7_SHA = 1u << 29, C7_AVX512BW = 1u << 30, C7_AVX512VL = 1u << 31,
        C7C_VBMI2 = 1u << 6, C7C_GFNI = 1u << 8, C7C_VAES = 1u << 9, C7C_VPCLMULQDQ = 1u << 10,
        C7C_VNNI = 1u << 11, C7C_BITALG = 1u << 12, C7C_VPOPCNTDQ = 1u << 14,
};
static const uint32_t C7_AVX512_G1 = C7_AVX512F | C7_AVX512VL | C7_AVX512BW | C7_AVX512CD | C7_AVX512DQ;
static const uint32_t C7C_AVX512_G2 =
        C7C_VBMI2 | C7C_GFNI | C7C_VAES | C7C_VPCLMULQDQ | C7C_VNNI | C7C_BITALG | C7C_VPOPCNTDQ;

// ---------------------------------------------------------------- Env
// Which monitors decide (others only count observations)
struct Secrets {
        // 16-byte needles that must not be found in registers / dead stack after an AES call
        std::vector<std::array<uint8_t, 16>> needles;
        std::vector<std::string> what;
        void clear()
        {
                needles.clear();
                what.clear();
        }
        void add(const void *p, const char *w)
        {
                std::array<uint8_t, 16> a;
                memcpy(a.data(), p, 16);
                // all-zero / trivially low-entropy blocks would match by accident: skip them
                int distinct = 0;
                bool seen[256] = { false };
                for (int i = 0; i < 16; i++)
                        if (!seen[a[i]]) {
                                seen[a[i]] = true;
                                distinct++;
                        }
                if (distinct < 8)
                        return;
                needles.push_back(a);
                what.push_back(w);
        }
        void add_range(const void *p, size_t n, const char *w)
        {
                for (size_t i = 0; i + 16 <= n; i += 16)
                        add((const uint8_t *) p + i, w);
        }
};

struct Env {
        Mem mem;
        Rng hidden;           // hidden-state stream (poison)
        RunResult *res = nullptr;
        int op_index = -1;
        bool poison_regs = true;
        // dedicated call stack
        uint8_t *stk_lo = nullptr, *stk_hi = nullptr; // accessible range
        uint64_t call_rsp = 0, base_rsp = 0;
        int stack_phase = 0;
        std::vector<uint8_t> poison_ref; // pristine copy of the 64 KiB below call_rsp + canary above
        SimFrame *frame = nullptr;
        uint64_t ncalls = 0;
        std::map<std::string, uint64_t> calls_by_entry;
        // per-call C14
        Secrets secrets;
        bool scan_secrets = false; // set by the caller before an AES call

        Env();
        ~Env();
        void begin_run(uint64_t hidden_seed, RunResult *r);
        void end_run();

        // Call a library function through the trampoline. Up to 6 register args + stack args.
        uint64_t call(const char *entry, void *fn, std::initializer_list<uint64_t> args);

        // Records a violation. The run is aborted when it concerns the focus property (or is fatal);
        // violations of other properties are observations: the run continues, unless the model cannot be
        // trusted afterwards (model_ok_after=false), in which case the run ends without a verdict (tainted).
        void violation(const char *prop, const std::string &cls, const std::string &sig, const std::string &detail,
                       bool model_ok_after = true);
        bool tainted = false;
        // CPU-time limit for the next library calls (0 = none). When it expires inside a call the call is abandoned: with
        // cancel_is_benign the run ends without a verdict (the harness cancelled a long computation on purpose, nothing is observed
        // afterwards); otherwise it is reported as a call that does not return.
        // asynchronous-signal fault: every call of the run is hit by one simulated signal (see cpu.cc)
        bool signal_faults = false;
        double call_cpu_limit_s = 0;
        bool cancel_is_benign = false;
        // when set, calls of isal_* entry points that have a deprecated twin with the same signature go to the twin instead
        bool legacy_api = false;
        // record an observable value (C20 history) and into the event log
        void obs(uint32_t tag, uint64_t v)
        {
                uint64_t h = mix64(tag, v);
                res->obs.add(h);
                res->ev.add(h);
                res->obs_trace.push_back(h);
                res->obs_tags.push_back(tag);
        }
        void obs_bytes(uint32_t tag, const void *p, size_t n) { obs(tag, hash_bytes(p, n)); }
        void ev(uint64_t v) { res->ev.add(v); } // schedule-level event (not an observable)
        // "recycled object" fault: overwrite a plan-chosen subset of the 64-byte chunks of an object with hidden-stream bytes (the memory
        // was used for something else between two lives of the object). Which chunks: from 'salt' (plan); what bytes: hidden stream.
        void recycle_corrupt(uint8_t *obj, size_t n, uint64_t salt);
        void check_mem_all(const char *when);
        void check_buf(const void *p, const char *entry);
};

#define U(x) ((uint64_t) (uintptr_t) (x))
