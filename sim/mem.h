// mem.h — MemLayer: simulated memory map. Every byte handed to the library lives in a
// guard-paged slot of one big reserved arena; addresses are a pure function of the
// allocation sequence (so paired runs see identical addresses).
#pragma once
#include "core.h"
#include <csetjmp>

enum Place { END_FLUSH = 0, START_FLUSH = 1, MID = 2 }; // MID: 'off' bytes after the slot start, no flush side
enum Role { R_INPUT = 0, R_OUTPUT = 1, R_OBJECT = 2, R_CONST = 3 };

struct MemBuf {
        uint8_t *p = nullptr;   // first byte handed to the library
        size_t n = 0;           // declared length
        uint8_t *lo = nullptr;  // first accessible byte (page aligned)
        uint8_t *hi = nullptr;  // one past last accessible byte (page aligned)
        uint64_t canary = 0;    // seed of the slack pattern
        int role = R_INPUT;
        uint64_t sum = 0;       // checksum of [p,p+n) taken by snapshot()
        bool watched = false;   // snapshot taken
        const char *name = "";
};

struct FaultInfo {
        bool valid = false;
        uintptr_t addr = 0;
        bool write = false;
        uintptr_t rip = 0;
        int signo = 0;
};

class Mem
{
      public:
        Mem();
        ~Mem();
        // allocate n bytes with alignment 'align' (power of two <= 4096); slack filled with canary,
        // payload filled from 'fill' (hidden stream) when non-null, else zero.
        uint8_t *alloc(size_t n, size_t align, Place pl, Rng *fill, const char *name, int role = R_INPUT, size_t off = 0);
        // big allocation that is not canary-filled nor payload-filled (C15 window etc.)
        void reset(); // drop everything; next alloc sequence gets identical addresses
        // stack discipline for short-lived buffers: everything allocated after mark() is dropped by release()
        struct Mark {
                size_t bump, nbufs;
        };
        Mark mark() const { return Mark{ bump_, bufs_.size() }; }
        void release(const Mark &m);
        int find(uintptr_t addr, long *off) const; // which buffer's slot (incl. its guard pages) holds addr
        const MemBuf &buf(int i) const { return bufs_[i]; }
        MemBuf *lookup(const void *p);
        size_t nbufs() const { return bufs_.size(); }

        // integrity
        void snapshot(const void *p);            // remember checksum of this buffer (must not change)
        void unwatch(const void *p);             // buffer may now legitimately change
        // verify canaries of all buffers and checksums of all watched buffers;
        // returns empty string if fine, else a description ("canary <name> off=+3", "modified <name>")
        std::string verify(bool *is_canary = nullptr) const;
        std::string verify_one(const void *p, bool *is_canary = nullptr) const;

        size_t bytes_mapped() const { return bump_; }
        // address policy of the run (a pure function of the plan seed, so paired runs still see identical addresses):
        // some runs place a share of their buffers across a 4 GiB-aligned address
        void set_addr_policy(uint64_t seed);
        size_t straddled() const { return straddled_; }

      private:
        uint8_t *base_;
        size_t cap_;
        size_t bump_;
        std::vector<MemBuf> bufs_;
        Rng arng_;
        unsigned straddle_rate_ = 0;
        size_t straddled_ = 0;
        bool alloc_straddling(MemBuf &b, size_t n, size_t align);
};

// ---- fault catching around library calls
extern FaultInfo g_fault;
extern sigjmp_buf g_fault_jmp;
extern volatile int g_fault_armed;
void install_fault_handler();
// set by a coroutine scheduler user: called from the SIGVTALRM handler when a task's step exceeds its CPU limit
extern void (*g_step_hang_hook)();

// canary helpers
void canary_fill(uint8_t *p, size_t n, uint64_t seed, size_t phase);
long canary_check(const uint8_t *p, size_t n, uint64_t seed, size_t phase); // -1 ok, else first bad offset
