#include "mem.h"
#include <sys/mman.h>
#include <signal.h>
#include <unistd.h>
#include <ucontext.h>

static const size_t PG = 4096;

FaultInfo g_fault;
sigjmp_buf g_fault_jmp;
volatile int g_fault_armed = 0;

void canary_fill(uint8_t *p, size_t n, uint64_t seed, size_t phase)
{
        for (size_t i = 0; i < n; i++) {
                size_t k = phase + i;
                uint64_t x = seed + (k >> 3);
                uint64_t v = splitmix64(x);
                p[i] = (uint8_t) (v >> (8 * (k & 7)));
        }
}
long canary_check(const uint8_t *p, size_t n, uint64_t seed, size_t phase)
{
        size_t i = 0;
        while (i < n) {
                size_t k = phase + i;
                uint64_t x = seed + (k >> 3);
                uint64_t v = splitmix64(x);
                // compare up to the end of this 8-byte group
                size_t in = k & 7;
                for (; in < 8 && i < n; in++, i++)
                        if (p[i] != (uint8_t) (v >> (8 * in)))
                                return (long) i;
        }
        return -1;
}

Mem::Mem()
{
        cap_ = (size_t) 64 << 30; // 64 GiB of address space (15 interior 4 GiB lines), committed lazily
        base_ = (uint8_t *) mmap((void *) 0x200000000000ULL, cap_, PROT_NONE,
                                 MAP_PRIVATE | MAP_ANONYMOUS | MAP_NORESERVE | MAP_FIXED_NOREPLACE, -1, 0);
        if (base_ == MAP_FAILED) {
                base_ = (uint8_t *) mmap(nullptr, cap_, PROT_NONE, MAP_PRIVATE | MAP_ANONYMOUS | MAP_NORESERVE, -1, 0);
                if (base_ == MAP_FAILED) {
                        perror("mmap arena");
                        abort();
                }
        }
        bump_ = PG; // leading guard page
}
Mem::~Mem() { munmap(base_, cap_); }

void Mem::reset()
{
        if (bump_ > PG) {
                mprotect(base_, bump_, PROT_NONE);
                madvise(base_, bump_, MADV_DONTNEED);
        }
        bump_ = PG;
        bufs_.clear();
        straddle_rate_ = 0;
        straddled_ = 0;
}

void Mem::set_addr_policy(uint64_t seed)
{
        arng_.seed(seed);
        // half of the runs never straddle; the others do so rarely or often
        unsigned m = (unsigned) arng_.below(4);
        straddle_rate_ = m < 2 ? 0 : m == 2 ? 4 : 21; // per 64 allocations
}

// Place the buffer across a 4 GiB-aligned address: pointer arithmetic done in 32 bits, or with a lost carry, is only
// visible there. Returns false when no line is left (the caller falls back to the ordinary placement).
bool Mem::alloc_straddling(MemBuf &b, size_t n, size_t align)
{
        const uintptr_t G4 = (uintptr_t) 1 << 32;
        // bytes below the line: mostly 0 < x < n (across it); sometimes 0 (the buffer starts exactly on the line: the low 32 bits of
        // its address are zero) or n (it ends exactly there)
        size_t x;
        unsigned how = (unsigned) arng_.below(8);
        if (how < 2 || n < 2 || n <= align)
                x = 0;
        else if (how == 2 && n % align == 0)
                x = n;
        else
                x = align * (1 + (size_t) arng_.below((n - 1) / align));
        uintptr_t cur = (uintptr_t) base_ + bump_;
        uintptr_t line = (cur + x + PG + G4 - 1) & ~(G4 - 1);
        uintptr_t p = line - x;
        uintptr_t lo = p & ~(uintptr_t) (PG - 1);
        uintptr_t hi = (p + n + PG - 1) & ~(uintptr_t) (PG - 1);
        if (lo < cur || hi + PG > (uintptr_t) base_ + cap_)
                return false;
        if (mprotect((void *) lo, hi - lo, PROT_READ | PROT_WRITE)) {
                perror("mprotect");
                abort();
        }
        b.lo = (uint8_t *) lo;
        b.hi = (uint8_t *) hi;
        b.p = (uint8_t *) p;
        bump_ = (size_t) (hi - (uintptr_t) base_) + PG;
        straddled_++;
        return true;
}

void Mem::release(const Mark &m)
{
        if (m.bump < bump_) {
                mprotect(base_ + m.bump, bump_ - m.bump, PROT_NONE);
                madvise(base_ + m.bump, bump_ - m.bump, MADV_DONTNEED);
                bump_ = m.bump;
        }
        if (m.nbufs < bufs_.size())
                bufs_.resize(m.nbufs);
}

uint8_t *Mem::alloc(size_t n, size_t align, Place pl, Rng *fill, const char *name, int role, size_t off)
{
        if (align == 0)
                align = 1;
        size_t span = n + align + (pl == MID ? off + align : 0); // worst case room
        size_t pages = (span + PG - 1) / PG;
        if (pages == 0)
                pages = 1;
        if (bump_ + (pages + 1) * PG > cap_) {
                fprintf(stderr, "Mem: arena exhausted\n");
                abort();
        }
        MemBuf b;
        bool straddles = false;
        if (straddle_rate_ && n >= 1 && arng_.below(64) < straddle_rate_)
                straddles = alloc_straddling(b, n, align);
        if (straddles) {
                b.n = n;
                b.role = role;
                b.name = name;
                b.canary = fill ? fill->next() : 0x5ca1ab1e0badf00dULL;
                size_t pre = (size_t) (b.p - b.lo), post = (size_t) (b.hi - (b.p + n));
                canary_fill(b.lo, pre, b.canary, 0);
                canary_fill(b.p + n, post, b.canary, pre);
                if (fill)
                        fill->fill(b.p, n);
                bufs_.push_back(b);
                return b.p;
        }
        uint8_t *lo = base_ + bump_;
        uint8_t *hi = lo + pages * PG;
        bump_ += (pages + 1) * PG; // trailing guard page (shared as next slot's leading guard)
        if (mprotect(lo, pages * PG, PROT_READ | PROT_WRITE)) {
                perror("mprotect");
                abort();
        }
        b.lo = lo;
        b.hi = hi;
        b.n = n;
        b.role = role;
        b.name = name;
        b.canary = fill ? fill->next() : 0x5ca1ab1e0badf00dULL;
        if (pl == END_FLUSH) {
                uintptr_t end = (uintptr_t) hi;
                uintptr_t start = (end - n) & ~(uintptr_t) (align - 1);
                b.p = (uint8_t *) start;
        } else if (pl == MID) {
                uintptr_t start = ((uintptr_t) lo + off + align - 1) & ~(uintptr_t) (align - 1);
                b.p = (uint8_t *) start;
        } else {
                b.p = lo;
        }
        // canary slack before and after
        size_t pre = (size_t) (b.p - lo), post = (size_t) (hi - (b.p + n));
        canary_fill(lo, pre, b.canary, 0);
        canary_fill(b.p + n, post, b.canary, pre);
        if (n) {
                if (fill)
                        fill->fill(b.p, n);
                // else: fresh anonymous pages are already zero
        }
        bufs_.push_back(b);
        return b.p;
}

int Mem::find(uintptr_t addr, long *off) const
{
        // slot i covers [lo - PG, hi + PG)
        for (size_t i = 0; i < bufs_.size(); i++) {
                const MemBuf &b = bufs_[i];
                // prefer the buffer whose accessible range is nearest: guard page after hi belongs to i,
                // guard page before lo belongs to i as well (shared pages resolved by nearest payload)
                if (addr >= (uintptr_t) b.lo - PG && addr < (uintptr_t) b.hi + PG) {
                        // check whether next buffer is a better owner (addr in shared guard page)
                        if (addr >= (uintptr_t) b.hi && i + 1 < bufs_.size()) {
                                const MemBuf &c = bufs_[i + 1];
                                uintptr_t d1 = addr - ((uintptr_t) b.p + b.n);
                                uintptr_t d2 = (uintptr_t) c.p - addr;
                                if (d2 < d1) {
                                        if (off)
                                                *off = -(long) d2;
                                        return (int) i + 1;
                                }
                        }
                        if (off) {
                                if (addr < (uintptr_t) b.p)
                                        *off = -(long) ((uintptr_t) b.p - addr);
                                else
                                        *off = (long) (addr - (uintptr_t) b.p);
                        }
                        return (int) i;
                }
        }
        return -1;
}

MemBuf *Mem::lookup(const void *p)
{
        // most lookups are for recent buffers
        for (size_t i = bufs_.size(); i-- > 0;)
                if (bufs_[i].p == p)
                        return &bufs_[i];
        return nullptr;
}

void Mem::snapshot(const void *p)
{
        MemBuf *b = lookup(p);
        if (!b)
                return;
        b->sum = hash_bytes(b->p, b->n);
        b->watched = true;
}
void Mem::unwatch(const void *p)
{
        MemBuf *b = lookup(p);
        if (b)
                b->watched = false;
}

static std::string verify_buf(const MemBuf &b, bool *is_canary)
{
        size_t pre = (size_t) (b.p - b.lo), post = (size_t) (b.hi - (b.p + b.n));
        long bad = canary_check(b.lo, pre, b.canary, 0);
        if (bad >= 0) {
                if (is_canary)
                        *is_canary = true;
                return strfmt("write before '%s' at offset -%ld (len %zu)", b.name, (long) pre - bad, b.n);
        }
        bad = canary_check(b.p + b.n, post, b.canary, pre);
        if (bad >= 0) {
                if (is_canary)
                        *is_canary = true;
                return strfmt("write past '%s' at offset len+%ld (len %zu)", b.name, bad, b.n);
        }
        if (b.watched && hash_bytes(b.p, b.n) != b.sum) {
                if (is_canary)
                        *is_canary = false;
                return strfmt("'%s' (len %zu) modified", b.name, b.n);
        }
        return "";
}

std::string Mem::verify(bool *is_canary) const
{
        for (auto &b : bufs_) {
                std::string s = verify_buf(b, is_canary);
                if (!s.empty())
                        return s;
        }
        return "";
}
std::string Mem::verify_one(const void *p, bool *is_canary) const
{
        for (size_t i = bufs_.size(); i-- > 0;)
                if (bufs_[i].p == p)
                        return verify_buf(bufs_[i], is_canary);
        return "";
}

// ---------------------------------------------------------------- fault handler
bool (*g_fault_filter)(uintptr_t addr, bool write) = nullptr;
void (*g_step_hang_hook)() = nullptr;

static void on_fault(int sig, siginfo_t *si, void *uc_)
{
        ucontext_t *uc = (ucontext_t *) uc_;
        if (sig == SIGVTALRM) {
                // CPU-time limit of a library call (Env::call_cpu_limit_s), or of a coroutine task's step (g_step_hang_hook)
                if (!g_fault_armed) {
                        if (g_step_hang_hook)
                                g_step_hang_hook(); // switches back to the scheduler; this context is abandoned
                        return;
                }
                g_fault.valid = true;
                g_fault.addr = 0;
                g_fault.write = false;
                g_fault.rip = (uintptr_t) uc->uc_mcontext.gregs[REG_RIP];
                g_fault.signo = sig;
                g_fault_armed = 0;
                siglongjmp(g_fault_jmp, 1);
        }
        if (g_fault_filter && (sig == SIGSEGV || sig == SIGBUS) &&
            g_fault_filter((uintptr_t) si->si_addr, (uc->uc_mcontext.gregs[REG_ERR] & 2) != 0))
                return; // handled: the faulting instruction is re-executed
        if (!g_fault_armed) {
                // a fault outside a library call is a harness error: die loudly with default action
                signal(sig, SIG_DFL);
                raise(sig);
                return;
        }
        g_fault.valid = true;
        g_fault.addr = (uintptr_t) si->si_addr;
        g_fault.write = (uc->uc_mcontext.gregs[REG_ERR] & 2) != 0;
        g_fault.rip = (uintptr_t) uc->uc_mcontext.gregs[REG_RIP];
        g_fault.signo = sig;
        g_fault_armed = 0;
        siglongjmp(g_fault_jmp, 1);
}

void install_fault_handler()
{
        static uint8_t *alt = nullptr;
        if (!alt) {
                alt = (uint8_t *) mmap(nullptr, 1 << 16, PROT_READ | PROT_WRITE, MAP_PRIVATE | MAP_ANONYMOUS, -1, 0);
                stack_t ss;
                ss.ss_sp = alt;
                ss.ss_size = 1 << 16;
                ss.ss_flags = 0;
                sigaltstack(&ss, nullptr);
        }
        struct sigaction sa;
        memset(&sa, 0, sizeof sa);
        sa.sa_sigaction = on_fault;
        sa.sa_flags = SA_SIGINFO | SA_ONSTACK | SA_NODEFER;
        sigemptyset(&sa.sa_mask);
        sigaction(SIGSEGV, &sa, nullptr);
        sigaction(SIGBUS, &sa, nullptr);
        sigaction(SIGILL, &sa, nullptr);
        sigaction(SIGFPE, &sa, nullptr);
        sigaction(SIGVTALRM, &sa, nullptr);
}
