// driver.cc — check runner: seeded search over plans across worker processes, violation gate,
// ddmin shrinking, replay files, known findings, evidence.
#include "sim.h"
#include "models.h"
#include <sys/wait.h>
#include <sys/mman.h>
#include <sys/stat.h>
#include <unistd.h>
#include <fcntl.h>
#include <time.h>
#include <algorithm>
#include <memory>

std::string g_focus;
bool g_fips_build = false;
bool g_force_family_api = false;

static double now_s()
{
        struct timespec ts;
        clock_gettime(CLOCK_MONOTONIC, &ts);
        return ts.tv_sec + ts.tv_nsec * 1e-9;
}

// ---------------------------------------------------------------- check registry
struct SimWeight {
        const char *sim;
        int weight;        // share of the randomly assigned runs; < 0: no share but a quota of -weight run indices (4x in thorough)
        int thorough_quota = 0; // additional quota of run indices in the thorough tier only (expensive workloads)
};
struct CheckDef {
        const char *prop;
        const char *level;      // evidence level
        std::vector<SimWeight> sims;
        uint64_t quick_runs, thorough_runs;
        double quick_cap_s, thorough_cap_s;
        bool paired;            // C20: execute twice with different hidden seeds
        bool fips;              // needs the FIPS_MODE archive
        const char *rule;       // how cases are generated and what distinct_nontrivial counts
        std::vector<const char *> assumptions;
        // optional second pass of a std-build check against the FIPS_MODE archive (run by the FIPS binary; ./run merges its evidence)
        std::vector<SimWeight> fips_companion = {};
        uint64_t comp_quick_runs = 0, comp_thorough_runs = 0;
};

static std::vector<CheckDef> g_checks = {
        { "C01", "exploration", { { "hashmgr", 5 }, { "l2mgr", 1 }, { "hashfill", -32 }, { "hashendure", 0, 28 } }, 30000, 3000000, 50, 900, false, false,
          "cases: seeded plans (algorithm x family x client count x segmentation x submit/flush/restart interleaving; 1 in 12 with a giant segment "
          "kept in flight); thorough adds 28 endurance runs (one long-lived manager, 20-36 GiB through the flush path); "
          "distinct_nontrivial: distinct manager states reached, state = hash(algorithm, family, |in flight|, sorted remaining-block buckets "
          "of in-flight jobs, #idle, #complete clients, last op kind) at which at least one job was in flight",
          { "reference hashes trusted after start-up vector self-check", "sampling, not proof" } },
        { "C06", "exploration", { { "hashmgr", 5 }, { "l2mgr", 1 }, { "hashgiant", -28 }, { "hashfill", -32 } }, 30000, 3000000, 50, 900, false, false,
          "cases: seeded plans over submit/flush/drain/restart/zero-length-LAST histories on every (algorithm, family), 1 in 12 with a giant "
          "(2^30..2^32-1 byte) segment kept in flight, plus 28 runs (one per pair) that flush a single 2^30-byte ENTIRE segment to the end; "
          "distinct_nontrivial: distinct manager states (as C01) reached with a conservation invariant evaluated",
          { "lane capacity per family read from the family's manager-init code", "sampling, not proof" } },
        { "C11", "exploration", { { "hashmgr", 1 } }, 24000, 3000000, 50, 900, false, false,
          "cases: seeded plans with misuse faults (bad flags / already processing / already completed) injected at arbitrary manager "
          "states; distinct_nontrivial: distinct (algorithm, family, reject kind, |in flight| at the reject, API level) cells with a "
          "before/after image comparison",
          { "the error field of the rejected context is the reported result and is exempt from the byte-image comparison" } },
        { "C05", "exploration", { { "stream", 9 }, { "l2mgr", 1 } }, 30000, 3000000, 50, 900, false, false,
          "cases: seeded plans of 1-4 interleaved stream clients (mh_sha1 / mh_sha256 biased) x family x stream length class x fragmentation x "
          "restart; distinct_nontrivial: distinct (kind, family, carried bytes / 64, fragment class) cells exercised",
          { "multi-hash reference written from the property text, byte order of the final hash input taken from the pinned implementation",
            "sampling, not proof" } },
        { "C10", "exploration", { { "stream", 9 }, { "l2mgr", 1 } }, 30000, 3000000, 50, 900, false, false,
          "cases: as C05 with mh_sha1_murmur3_x64_128 clients and a 64-bit seed per stream; distinct_nontrivial: distinct (family, carried bytes / 64, "
          "fragment class) cells",
          { "MurmurHash3_x64_128 reference checked against published vectors at start-up" } },
        { "C09", "exploration", { { "stream", 9 }, { "l2mgr", 1 } }, 8000, 3000000, 50, 900, false, false,
          "cases: rolling-hash clients (window 1..48, mask/trigger classes, scan implementation base/_00/_04) fed by arbitrary run-call "
          "splits, twin clients on the same stream, one >= 2^31-byte run per implementation; distinct_nontrivial: distinct "
          "(implementation, w, max_len class, hit position class) cells",
          { "golden copy of the 256-entry table frozen in /verif defines the hash", "sampling, not proof" } },
        { "C07", "exploration", { { "stream", 7 }, { "gcmjump", 1 } }, 30000, 3000000, 50, 900, false, false,
          "cases: AES-GCM streaming clients (key size x family x enc/dec x in/out of place x nt) under arbitrary update splits, contexts sharing "
          "key data, restarts, 8 runs with a message longer than 2^32 bytes; oracle = one-shot call of the same family; distinct_nontrivial: distinct (family, key size, direction, "
          "carried partial length, fragment residue, fragment class, nt, in-place) cells",
          { "the one-shot call of the same family is the oracle, not an object under test (that would be C02)" } },
        { "C08", "exploration", { { "hashmgr", 3 }, { "stream", 4 }, { "oneshot", 4 }, { "l2mgr", 2 }, { "streamhuge", -12 }, { "hashedge", -28 }, { "cbchuge", -3 } }, 40000, 4000000, 50, 900, false, false,
          "cases: mixed batch of all workloads (hash managers, streaming objects, one-shot AES client, 12 huge stream cases) with every buffer placed end-flush, "
          "start-flush or mid-slot in a guard-paged arena (seeded), canaries around every range, checksums of every input/constant object; "
          "only the memory-map monitor decides; distinct_nontrivial: distinct workload states reached (union of the HashMgrSim, StreamSim "
          "and one-shot cell measures: (entry/kind, family, length or carry class, placement-independent))",
          { "a guard page detects out-of-range accesses that cross into the neighbouring page from the flush side; the opposite side is covered by "
            "canaries (writes) and by the other placement in other runs (reads)",
            "documented alignment rules are honoured (16-byte CBC IV and key schedules, 64-byte _nt buffers, 16-byte GCM key data)" } },
        { "C14", "exploration", { { "stream", 2 }, { "oneshot", 4 }, { "gcmhuge", -4 }, { "streamhuge", 0, 8 } }, 30000, 3000000, 50, 900, false, false,
          "cases: AES entry points of every family (key expansion, GCM precompute/init/update/finalize/one-shot, CBC, XTS) reached from the "
          "streaming GCM clients and the one-shot client; after each call all 128 16-byte lanes of zmm0-31 and every byte offset of the "
          "dirtied part of the 64 KiB dead stack are searched for the call's secret set; distinct_nontrivial: distinct (entry/kind, family, "
          "length class) cells in which an AES call was scanned",
          { "secret set: raw keys, every encryption/decryption round key, GHASH key and stored powers, E(key2, tweak); 16-byte blocks with fewer than 8 "
            "distinct byte values are not used as needles",
            "the dead-stack search is restricted to 4 KiB chunks that differ from the pre-call poison (a chunk identical to the poison cannot hold a "
            "secret)",
            "a second pass runs the same monitor over the FIPS_MODE archive (one-shot and streaming clients through the gated isal_ API, and the "
            "FIPS gate enumeration with failed / not-yet-run self-tests): the gated wrappers add code of their own around the kernels" },
          { { "oneshot", 4 }, { "stream", 2 }, { "fipsgate", 3 } }, 16000, 1000000 },
        { "C19", "exploration", { { "hashmgr", 2 }, { "stream", 3 }, { "oneshot", 3 }, { "dispatch", 1 }, { "l2mgr", 3 }, { "streamhuge", 0, 12 } }, 40000, 4000000, 50, 900, false, false,
          "cases: every library call of the mixed batch (hash managers, streaming objects, one-shot AES, dispatch resolvers) goes through the "
          "register-poisoning trampoline; rsp, rbx, rbp, r12-r15, DF, MXCSR control bits, x87 CW and 64 canary bytes above the callee's frame "
          "are compared after each call; distinct_nontrivial: distinct workload states (as C08) plus distinct (entry, bound target) pairs for "
          "the resolvers",
          { "exit paths are reached through the workloads' histories and length classes, not enumerated from the source",
            "a second pass runs the FIPS gate enumeration of the FIPS_MODE archive through the same trampoline (gated wrappers and the status helper)" },
          { { "fipsgate", 1 } }, 8000, 400000 },
        { "C20", "exploration", { { "hashmgr", 3 }, { "stream", 4 }, { "oneshot", 3 }, { "l2mgr", 2 }, { "streamhuge", 0, 8 }, { "cbchuge", -3, 16 } }, 24000, 2400000, 50, 900, true, false,
          "cases: every plan of the mixed batch is executed twice with different hidden seeds (output prefill, uninitialised object memory, bytes "
          "beyond len, caller-saved/vector/mask registers, flags, 64 KiB dead stack) and identical schedule/transport/fault streams and "
          "addresses; the two observable histories must be identical; distinct_nontrivial: distinct workload states (as C08)",
          { "object internals, bytes beyond len and register contents after return are deliberately not compared" } },
        { "C18", "exploration", { { "shared", 1 } }, 20000, 2000000, 50, 900, false, false,
          "cases: (a) frozen statics - the library's writable static storage (all .data/.bss/COMMON of the archive, linked into one "
          "page-aligned section) is write-protected, before or after binding, while hash-manager / streaming / one-shot workloads run; only "
          "stores into <entry>_dispatched slots (and self_test_status) are admitted and logged; (b) first-call races - 2-6 coroutine tasks make "
          "simultaneous first calls of the same or different dispatched entry points, interleaved at the simulated cpuid/xgetbv points; "
          "(c) two tasks with separate environments and objects run workload plans interleaved at call granularity and must reproduce their "
          "solo histories; distinct_nontrivial: distinct (mode, workload, binding order) cells for (a)/(c) and distinct (slot states, per-task "
          "program point) states for (b)",
          { "true parallel preemption inside a kernel is not simulated: the argument is that code which never writes static storage has nothing "
            "but caller-owned objects, its own stack and constants to interfere through",
            "a second pass runs the same three modes over the FIPS_MODE archive, half of the runs starting with the self-tests not yet run (they then "
            "execute under frozen statics inside the first gated call)" },
          { { "shared", 1 } }, 6000, 400000 },
        { "C15", "exploration", { { "hashlong", 1 }, { "hashjump", -140 }, { "hashfill", -28 } }, 196, 728, 150, 3000, false, false,
          "cases: long-stream workload on every (algorithm, family) pair in turn (run i uses pair i mod 28): up to 4 long clients stream the same "
          "periodic 2 MiB pattern through a 4 GiB aliased window under seeded segmentations (segments up to 2^32-1 bytes, bursts of small "
          "unaligned segments around each threshold) interleaved with short clients; quick crosses 2^29 and 2^32 on all 28 pairs (one long "
          "client each), thorough crosses 2^32+2^29 on all with two long clients; plus counter-jump runs (5 per pair in quick, 20 in thorough): "
          "a whole number of blocks is added to ctx->total_length and to the model's length while the context is idle, then 2^k (k in 33..60) "
          "is approached and crossed with real segments; distinct_nontrivial: distinct (pair, stream position >> 26, segment length >> 20) cells",
          { "one streaming reference digest per (algorithm, total length) shared by all clients and families of a process",
            "counter jump: ctx->total_length is taken to be the library's only record of the running total; a run whose reported total does not "
            "follow the jump is discarded, not judged",
            "the periodic stream is a declared input like any other; periodicity is irrelevant to length accounting" } },
        { "C12", "exploration", { { "dispatch", 1 } }, 200000, 20000000, 50, 900, false, false,
          "cases: seeded architecturally consistent CPUID leaf 1/7 + XCR0 assignments biased to fault profiles (one feature masked, OS state "
          "disabled, OSXSAVE clear, partial AVX-512 group 1 / group 2, SHA without AVX, Avoton, old parts); every dispatched entry's resolver "
          "is run under each; distinct_nontrivial: distinct projections of the simulated CPU onto the bits the resolvers read plus distinct "
          "(entry point, bound target) pairs",
          { "instruction classes needed by a target come from a hand-written classifier over objdump output of the freshly built objects, closed "
            "over direct calls/references",
            "feature classes the dispatchers never test (AES-NI, PCLMULQDQ, SSSE3, BMI, POPCNT) are outside the property's quantifier; AES entry points "
            "have SSE4.1 as documented minimum requirement",
            "consistency rules: SSE4.2=>SSE4.1, AVX=>SSE4.2, AVX2=>AVX, AVX512F=>AVX2, sub-features=>F, VAES/VPCLMULQDQ=>AVX, SHA/GFNI=>SSE4.2, "
            "XCR0 bits only for reported features, ZMM state bits together" } },
        { "C13", "fault_enumeration", { { "fipsgate", 1 } }, 48000, 6000000, 50, 900, false, true,
          "cases: every run starts from one injected self-test state (8 fault kinds, rotated by run index) and its first call rotates over all "
          "isal_* entry points, so every (entry point x initial fault kind) pair is enumerated once per 8*#entries runs; later calls, XTS "
          "same-key variants, arguments and further injections are seeded; distinct_nontrivial: distinct (entry point, self-test state "
          "before the call, pending fault kind, xts-same-keys) tuples judged",
          { "self-test verdict injected by link-time wrapping of _aes_self_tests/_sha_self_tests or by corrupting a kernel's KAT output",
            "isal_crypto_get_version* are neither approved nor non-approved and are called but not judged" } },
        { "C17", "exploration", { { "fipsrace", 1 } }, 60000, 20000000, 50, 900, false, true,
          "cases: 1-8 coroutine tasks making first calls (isal_self_tests or gated entry points), late arrivals, repeated calls, injected "
          "verdicts, seeded schedules (uniform, bursty, PCT-style priorities with 0-3 change points) over the yield points inside "
          "asm_check/set_self_tests_status; distinct_nontrivial: distinct (interleaving prefix hash, status value) pairs reached, i.e. "
          "distinct scheduler-visible protocol states",
          { "sequentially consistent interleavings at shared-access granularity (x86-TSO store buffering not modelled: the protocol uses one lock "
            "cmpxchg and single aligned stores)",
            "liveness is bounded in scheduling steps under a fair fallback scheduler" } },
};

// Which simulation run index i of a check belongs to. The first 10 indices belong to the check's primary simulation (its rare huge
// cases live there); a simulation listed with a negative weight -q owns the next q indices (4q in the thorough tier) - a fixed quota
// for expensive workloads that visit their cases round-robin by run index; all other indices are drawn by weight from seed_i.
static const char *pick_sim(const CheckDef &cd, uint64_t seed_i, uint64_t i, bool thorough)
{
        if (i < 10)
                return cd.sims[0].sim;
        uint64_t base = 10;
        int totw = 0;
        for (auto &sw : cd.sims) {
                uint64_t q = 0;
                if (sw.weight < 0)
                        q = (uint64_t) (-sw.weight) * (thorough ? 4 : 1);
                else
                        totw += sw.weight;
                if (thorough)
                        q += (uint64_t) sw.thorough_quota;
                if (i < base + q)
                        return sw.sim;
                base += q;
        }
        Rng pick(seed_i, "simpick");
        int x = (int) pick.below(totw);
        for (auto &sw : cd.sims) {
                if (sw.weight <= 0)
                        continue;
                if (x < sw.weight)
                        return sw.sim;
                x -= sw.weight;
        }
        return cd.sims[0].sim;
}

static const CheckDef *find_check(const std::string &p)
{
        for (auto &c : g_checks)
                if (p == c.prop)
                        return &c;
        return nullptr;
}
void register_check(const CheckDef &c) { g_checks.push_back(c); }

// ---------------------------------------------------------------- sims
static std::map<std::string, std::unique_ptr<Sim>> g_sims;
static Sim *get_sim(const std::string &n)
{
        auto it = g_sims.find(n);
        if (it != g_sims.end())
                return it->second.get();
        Sim *s = nullptr;
        if (n == "hashmgr")
                s = make_hashmgr_sim();
        else if (n == "hashlong")
                s = make_hashlong_sim();
        else if (n == "hashgiant")
                s = make_hashgiant_sim();
        else if (n == "hashendure")
                s = make_hashendure_sim();
        else if (n == "hashjump")
                s = make_hashjump_sim();
        else if (n == "hashfill")
                s = make_hashfill_sim();
        else if (n == "hashedge")
                s = make_hashedge_sim();
        else if (n == "l2mgr")
                s = make_l2mgr_sim();
        else if (n == "stream")
                s = make_stream_sim();
        else if (n == "streamhuge")
                s = make_streamhuge_sim();
        else if (n == "gcmhuge")
                s = make_gcmhuge_sim();
        else if (n == "oneshot")
                s = make_oneshot_sim();
        else if (n == "gcmjump")
                s = make_gcmjump_sim();
        else if (n == "cbchuge")
                s = make_cbchuge_sim();
        else if (n == "dispatch")
                s = make_dispatch_sim();
        else if (n == "fipsgate")
                s = make_fipsgate_sim();
        else if (n == "fipsrace")
                s = make_fipsrace_sim();
        else if (n == "shared")
                s = make_shared_sim();
        if (!s) {
                fprintf(stderr, "HARNESS: unknown sim %s\n", n.c_str());
                exit(2);
        }
        s->process_init();
        g_sims[n].reset(s);
        return s;
}

// ---------------------------------------------------------------- executing one plan
struct Exec {
        RunResult r;
        bool tainted = false;
};

Sim *get_sim_by_name(const std::string &n) { return get_sim(n); }

void fips_mark_self_tests_passed(bool not_yet_run = false);
static Env *g_env = nullptr;
static Env &env()
{
        if (!g_env)
                g_env = new Env();
        return *g_env;
}

static void exec_plan(Sim *sim, const Plan &p, uint64_t hidden_seed, RunResult &r)
{
        Env &e = env();
        e.begin_run(hidden_seed, &r);
        e.mem.set_addr_policy(mix64(p.seed, hash_str("addr-policy")));
        // fault "asynchronous signal": in 1 run of 128 every library call is hit by one simulated signal (not in the coroutine sims,
        // whose tasks call the library directly)
        if ((mix64(p.seed, hash_str("signal-fault")) & 0x7f) == 0 && p.sim != "fipsrace" && p.sim != "shared" && p.sim != "dispatch" && p.sim != "hashlong" && p.sim != "hashgiant" &&
            p.sim != "hashendure" && p.sim != "streamhuge" && p.sim != "gcmhuge" && p.sim != "cbchuge")
                e.signal_faults = true;
        if (g_fips_build && p.sim != "fipsgate" && p.sim != "fipsrace")
                fips_mark_self_tests_passed(p.sim == "shared" && (p.seed & 2)); // (half of the shared-state runs start with the self-tests not yet run)
        try {
                sim->execute(p, e, r);
        } catch (RunAbort &) {
        }
        if (e.mem.straddled())
                r.cov.hit("buffers_placed_across_a_4GiB_line", e.mem.straddled());
        e.end_run();
}

static bool relevant(const Violation &v, const std::string &focus)
{
        if (v.prop == focus)
                return true;
        if (v.detail.find("[fatal]") != std::string::npos)
                return true;
        return false;
}
static const Violation *first_relevant(const RunResult &r, const std::string &focus)
{
        for (auto &v : r.viols)
                if (relevant(v, focus))
                        return &v;
        return nullptr;
}

// paired execution for C20: returns a C20 violation in r if observable histories differ
static void exec_checked(Sim *sim, const Plan &p, uint64_t hidA, uint64_t hidB, bool paired, RunResult &r)
{
        exec_plan(sim, p, hidA, r);
        if (!paired)
                return;
        RunResult r2;
        exec_plan(sim, p, hidB, r2);
        r.steps += r2.steps;
        bool differ = r.obs.h != r2.obs.h || r.obs.n != r2.obs.n;
        // a violation in only one of the two executions is a divergence as well
        if (differ) {
                size_t k = 0;
                while (k < r.obs_trace.size() && k < r2.obs_trace.size() && r.obs_trace[k] == r2.obs_trace[k])
                        k++;
                Violation v;
                v.prop = "C20";
                v.cls = "history-divergence";
                v.sig = "C20/history-divergence/" + p.sim;
                v.detail = strfmt("observable histories of two executions that differ only in hidden state diverge at observable event %zu "
                                  "(of %zu / %zu), observable tag 0x%x",
                                  k, r.obs_trace.size(), r2.obs_trace.size(), k < r.obs_tags.size() ? r.obs_tags[k] : 0xffffffffu);
                v.sig = strfmt("C20/history-divergence/%s/tag%x", p.sim.c_str(), k < r.obs_tags.size() ? r.obs_tags[k] & ~0xfu : 0xfff0u);
                v.op_index = -1;
                v.ev_seq = k;
                r.viols.push_back(v);
        }
        for (auto &v : r2.viols)
                if (v.prop != "C20")
                        r.viols.push_back(v);
}

// ---------------------------------------------------------------- shrinking (ddmin over ops)
static bool still_fails(Sim *sim, const Plan &p, uint64_t hidA, uint64_t hidB, bool paired, const std::string &focus, const std::string &cls,
                        const std::string &sig, int *budget)
{
        if (*budget <= 0)
                return false;
        (*budget)--;
        RunResult r;
        exec_checked(sim, p, hidA, hidB, paired, r);
        for (auto &v : r.viols)
                if (relevant(v, focus) && v.cls == cls && (sig.empty() || v.sig == sig || v.prop != focus))
                        return true;
        return false;
}

static Plan shrink(Sim *sim, Plan p, uint64_t hidA, uint64_t hidB, bool paired, const std::string &focus, const std::string &cls, const std::string &sig,
                   int *reruns)
{
        int budget = 400;
        size_t n = 2;
        while (p.ops.size() >= 2 && budget > 0) {
                size_t len = p.ops.size();
                size_t chunk = (len + n - 1) / n;
                bool reduced = false;
                for (size_t start = 0; start < len && budget > 0; start += chunk) {
                        Plan q = p;
                        size_t end = std::min(len, start + chunk);
                        std::vector<Op> keep;
                        for (size_t i = 0; i < len; i++)
                                if (i < start || i >= end || !sim->droppable(p.ops[i]))
                                        keep.push_back(p.ops[i]);
                        if (keep.size() == len)
                                continue;
                        q.ops = keep;
                        if (still_fails(sim, q, hidA, hidB, paired, focus, cls, sig, &budget)) {
                                p = q;
                                n = std::max<size_t>(n - 1, 2);
                                reduced = true;
                                break;
                        }
                }
                if (!reduced) {
                        if (n >= len)
                                break;
                        n = std::min(len, n * 2);
                }
        }
        // argument shrinking: try to make op arguments smaller (a..d towards 0 / halves)
        for (size_t i = 0; i < p.ops.size() && budget > 0; i++) {
                for (int f = 0; f < 4 && budget > 0; f++) {
                        int64_t *fld = f == 0 ? &p.ops[i].a : f == 1 ? &p.ops[i].b : f == 2 ? &p.ops[i].c : &p.ops[i].d;
                        int64_t orig = *fld;
                        if (orig == 0)
                                continue;
                        for (int64_t cand : { (int64_t) 0, orig / 2 }) {
                                if (cand == orig)
                                        continue;
                                Plan q = p;
                                int64_t *qf = f == 0 ? &q.ops[i].a : f == 1 ? &q.ops[i].b : f == 2 ? &q.ops[i].c : &q.ops[i].d;
                                *qf = cand;
                                if (still_fails(sim, q, hidA, hidB, paired, focus, cls, sig, &budget)) {
                                        p = q;
                                        break;
                                }
                        }
                }
        }
        *reruns = 400 - budget;
        return p;
}

// ---------------------------------------------------------------- replay files
static std::string viol_json(const Violation &v)
{
        return "{\"property\":\"" + v.prop + "\",\"class\":\"" + json_escape(v.cls) + "\",\"sig\":\"" + json_escape(v.sig) + "\",\"detail\":\"" +
               json_escape(v.detail) + strfmt("\",\"op_index\":%d,\"event_seq\":%llu}", v.op_index, (unsigned long long) v.ev_seq);
}

static std::string out_dir()
{
        const char *o = getenv("VERIF_OUT");
        std::string d = o ? o : "/verif/out";
        mkdir(d.c_str(), 0755);
        mkdir((d + "/replays").c_str(), 0755);
        mkdir((d + "/tmp").c_str(), 0755);
        return d;
}

static std::string write_replay(const std::string &focus, const std::string &tier, uint64_t verif_seed, uint64_t run_index, const Plan &p,
                                uint64_t hidA, uint64_t hidB, bool paired, const Violation &v, uint64_t evhash, const Plan &orig, int reruns)
{
        std::string path = out_dir() + strfmt("/replays/%s-%llu-%llu.json", focus.c_str(), (unsigned long long) verif_seed,
                                              (unsigned long long) run_index);
        std::string s = "{\n \"property\":\"" + focus + "\",\n \"tier\":\"" + tier + "\",\n" +
                        strfmt(" \"verif_seed\":%llu,\n \"run_index\":%llu,\n \"hidden_a\":%llu,\n \"hidden_b\":%llu,\n \"paired\":%s,\n",
                               (unsigned long long) verif_seed, (unsigned long long) run_index, (unsigned long long) hidA,
                               (unsigned long long) hidB, paired ? "true" : "false") +
                        " \"fips_build\":" + (g_fips_build ? "true" : "false") + ",\n" + " \"expected\":" + viol_json(v) + ",\n" +
                        strfmt(" \"event_hash\":%llu,\n \"shrink_reruns\":%d,\n \"original_ops\":%zu,\n", (unsigned long long) evhash, reruns,
                               orig.ops.size()) +
                        " \"plan\":" + plan_to_json(p) + "\n}\n";
        write_file(path, s);
        return path;
}

// returns 1 if the violation reproduces, 0 if the run is clean, 2 on harness trouble
static int do_replay(const std::string &path, bool quiet)
{
        std::string txt = read_file(path);
        JVal j;
        std::string err;
        if (!json_parse(txt, j, &err)) {
                fprintf(stderr, "HARNESS: cannot parse %s: %s\n", path.c_str(), err.c_str());
                return 2;
        }
        std::string focus = j.gets("property");
        g_focus = focus;
        Plan p;
        const JVal *pj = j.get("plan");
        if (!pj)
                return 2;
        // re-serialise: plan_from_json works on text
        {
                // cheap: find the "plan": substring
                size_t k = txt.find("\"plan\":");
                std::string sub = txt.substr(k + 7);
                size_t e = sub.rfind('}');
                sub = sub.substr(0, e); // drop the outer closing brace
                if (!plan_from_json(sub, p, &err)) {
                        fprintf(stderr, "HARNESS: bad plan in %s: %s\n", path.c_str(), err.c_str());
                        return 2;
                }
        }
        uint64_t hidA = (uint64_t) j.geti("hidden_a"), hidB = (uint64_t) j.geti("hidden_b");
        bool paired = j.get("paired") && j.get("paired")->b;
        const JVal *ex = j.get("expected");
        std::string cls = ex ? ex->gets("class") : "";
        uint64_t want_hash = (uint64_t) j.geti("event_hash");
        Sim *sim = get_sim(p.sim);
        RunResult r;
        exec_checked(sim, p, hidA, hidB, paired, r);
        const Violation *hit = nullptr;
        for (auto &v : r.viols)
                if (relevant(v, focus) && (cls.empty() || v.cls == cls)) {
                        hit = &v;
                        break;
                }
        if (!hit) {
                if (!quiet)
                        printf("replay: no violation of %s reproduced (event hash %llu)\n", focus.c_str(), (unsigned long long) r.ev.h);
                return 0;
        }
        if (!quiet) {
                printf("replay: %s class=%s sig=%s\n  %s\n  at op %d, event %llu; event hash %llu (%s recorded %llu)\n", hit->prop.c_str(),
                       hit->cls.c_str(), hit->sig.c_str(), hit->detail.c_str(), hit->op_index, (unsigned long long) hit->ev_seq,
                       (unsigned long long) r.ev.h, r.ev.h == want_hash ? "matches" : "DIFFERS FROM", (unsigned long long) want_hash);
                printf("VIOLATION property=%s replay=%s\n", focus.c_str(), path.c_str());
        }
        if (want_hash && r.ev.h != want_hash)
                return 3; // reproduced the class but not the identical execution
        return 1;
}

// ---------------------------------------------------------------- known findings
struct Finding {
        std::string prop, sig, status, what;
};
static std::vector<Finding> load_findings()
{
        std::vector<Finding> f;
        const char *pth = getenv("VERIF_KNOWN_FINDINGS");
        std::string txt = read_file(pth ? pth : "/verif/known_findings.json");
        if (txt.empty())
                return f;
        JVal j;
        if (!json_parse(txt, j))
                return f;
        if (const JVal *a = j.get("findings"))
                for (auto &e : a->a)
                        f.push_back({ e.gets("property"), e.gets("sig"), e.gets("status"), e.gets("what") });
        return f;
}

// ---------------------------------------------------------------- worker
struct FoundViol {
        Violation v;
        std::string replay;
        uint64_t run_index;
        uint64_t count = 1;
        size_t ops_before = 0, ops_after = 0;
        int reruns = 0;
};

struct WorkerOut {
        uint64_t runs = 0, steps = 0, paired_runs = 0, determinism_rechecks = 0, tainted = 0;
        Coverage cov;
        std::map<std::string, FoundViol> found; // by sig
        std::map<std::string, uint64_t> observations; // violations of other properties seen on the way (by sig)
        std::vector<std::string> samples;
        std::map<std::string, uint64_t> calls;
        std::vector<std::string> harness_errors;
        double wall = 0;
};

static void serialize(const WorkerOut &w, const std::string &path)
{
        FILE *f = fopen(path.c_str(), "w");
        if (!f)
                return;
        fprintf(f, "R %llu %llu %llu %llu %llu %.3f\n", (unsigned long long) w.runs, (unsigned long long) w.steps,
                (unsigned long long) w.paired_runs, (unsigned long long) w.determinism_rechecks, (unsigned long long) w.tainted, w.wall);
        for (auto &kv : w.cov.counters)
                fprintf(f, "C %llu %s\n", (unsigned long long) kv.second, kv.first.c_str());
        for (auto &kv : w.calls)
                fprintf(f, "K %llu %s\n", (unsigned long long) kv.second, kv.first.c_str());
        for (auto &kv : w.observations)
                fprintf(f, "O %llu %s\n", (unsigned long long) kv.second, kv.first.c_str());
        for (auto h : w.cov.states)
                fprintf(f, "S %llx\n", (unsigned long long) h);
        for (auto &s : w.samples)
                fprintf(f, "P %s\n", s.c_str());
        for (auto &s : w.harness_errors)
                fprintf(f, "H %s\n", s.c_str());
        for (auto &kv : w.found) {
                const FoundViol &fv = kv.second;
                fprintf(f, "V %llu %llu %zu %zu %d\t%s\t%s\t%s\t%s\t%s\n", (unsigned long long) fv.run_index, (unsigned long long) fv.count,
                        fv.ops_before, fv.ops_after, fv.reruns, fv.v.prop.c_str(), fv.v.cls.c_str(), fv.v.sig.c_str(), fv.replay.c_str(),
                        json_escape(fv.v.detail).c_str());
        }
        fclose(f);
}

static std::vector<std::string> split(const std::string &s, char c)
{
        std::vector<std::string> v;
        size_t i = 0;
        while (true) {
                size_t j = s.find(c, i);
                if (j == std::string::npos) {
                        v.push_back(s.substr(i));
                        break;
                }
                v.push_back(s.substr(i, j - i));
                i = j + 1;
        }
        return v;
}

static void deserialize_into(WorkerOut &acc, const std::string &path)
{
        std::string txt = read_file(path);
        size_t i = 0;
        while (i < txt.size()) {
                size_t j = txt.find('\n', i);
                if (j == std::string::npos)
                        j = txt.size();
                std::string ln = txt.substr(i, j - i);
                i = j + 1;
                if (ln.size() < 2)
                        continue;
                char t = ln[0];
                std::string rest = ln.substr(2);
                if (t == 'R') {
                        unsigned long long a, b, c, d, e;
                        double wl;
                        if (sscanf(rest.c_str(), "%llu %llu %llu %llu %llu %lf", &a, &b, &c, &d, &e, &wl) == 6) {
                                acc.runs += a;
                                acc.steps += b;
                                acc.paired_runs += c;
                                acc.determinism_rechecks += d;
                                acc.tainted += e;
                                acc.wall = std::max(acc.wall, wl);
                        }
                } else if (t == 'C' || t == 'K' || t == 'O') {
                        size_t sp = rest.find(' ');
                        uint64_t n = strtoull(rest.substr(0, sp).c_str(), nullptr, 10);
                        std::string k = rest.substr(sp + 1);
                        if (t == 'C')
                                acc.cov.counters[k] += n;
                        else if (t == 'K')
                                acc.calls[k] += n;
                        else
                                acc.observations[k] += n;
                } else if (t == 'S') {
                        acc.cov.states.insert(strtoull(rest.c_str(), nullptr, 16));
                } else if (t == 'P') {
                        acc.samples.push_back(rest);
                } else if (t == 'H') {
                        acc.harness_errors.push_back(rest);
                } else if (t == 'V') {
                        std::vector<std::string> parts = split(rest, '\t');
                        if (parts.size() >= 6) {
                                FoundViol fv;
                                unsigned long long ri, cnt;
                                size_t ob, oa;
                                int rr;
                                sscanf(parts[0].c_str(), "%llu %llu %zu %zu %d", &ri, &cnt, &ob, &oa, &rr);
                                fv.run_index = ri;
                                fv.count = cnt;
                                fv.ops_before = ob;
                                fv.ops_after = oa;
                                fv.reruns = rr;
                                fv.v.prop = parts[1];
                                fv.v.cls = parts[2];
                                fv.v.sig = parts[3];
                                fv.replay = parts[4];
                                fv.v.detail = parts[5];
                                auto it = acc.found.find(fv.v.sig);
                                if (it == acc.found.end())
                                        acc.found[fv.v.sig] = fv;
                                else {
                                        it->second.count += fv.count;
                                        if (fv.run_index < it->second.run_index) {
                                                uint64_t c2 = it->second.count;
                                                it->second = fv;
                                                it->second.count = c2;
                                        }
                                }
                        }
                }
        }
}

struct SharedProgress {
        volatile uint64_t current[64];
        volatile uint64_t done[64];
};

static void worker_main(int wid, int W, const CheckDef &cd, const std::string &tier, uint64_t verif_seed, uint64_t nruns, double cap_s,
                        SharedProgress *sp, uint64_t start_from, const std::string &outpath)
{
        WorkerOut out;
        double t0 = now_s();
        bool thorough = tier == "thorough";
        const std::string focus = cd.prop;
        g_focus = focus;
        for (uint64_t i = start_from; i < nruns; i++) {
                if ((int) (i % W) != wid)
                        continue;
                if ((out.runs & 15) == 0 && now_s() - t0 > cap_s)
                        break;
                sp->current[wid] = i;
                uint64_t seed_i = mix64(verif_seed, i);
                // pick the sim
                const char *sname = pick_sim(cd, seed_i, i, thorough);
                Sim *sim = get_sim(sname);
                Plan p = sim->generate(seed_i, focus, thorough, i);
                p.sim = sname;
                p.seed = seed_i;
                uint64_t hidA = mix64(seed_i, 0xA11CE), hidB = mix64(seed_i, 0xB0B);
                RunResult r;
                double tr0 = getenv("VERIF_DEBUG_SLOW") ? now_s() : 0;
                exec_checked(sim, p, hidA, hidB, cd.paired, r);
                if (tr0 && now_s() - tr0 > 0.2)
                        fprintf(stderr, "SLOW run %llu sim %s %.2fs %s\n", (unsigned long long) i, sname, now_s() - tr0, sim->render(p).substr(0, 160).c_str());
                out.runs++;
                out.steps += r.steps;
                if (cd.paired)
                        out.paired_runs++;
                out.cov.merge(r.cov);
                if (env().tainted)
                        out.tainted++;
                if (out.samples.size() < 2 && !p.ops.empty())
                        out.samples.push_back(sim->render(p));
                // determinism re-check on ~2% of runs (and on every violating run below)
                if ((seed_i & 63) == 0) {
                        RunResult r2;
                        exec_checked(sim, p, hidA, hidB, cd.paired, r2);
                        out.determinism_rechecks++;
                        if (r2.ev.h != r.ev.h)
                                out.harness_errors.push_back(strfmt("nondeterministic run: seed index %llu sim %s hashes %llx vs %llx",
                                                                    (unsigned long long) i, sname, (unsigned long long) r.ev.h,
                                                                    (unsigned long long) r2.ev.h));
                }
                for (auto &v : r.viols)
                        if (!relevant(v, focus))
                                out.observations[v.sig]++;
                const Violation *v = first_relevant(r, focus);
                if (!v)
                        continue;
                Violation vv = *v;
                if (vv.prop != focus) { // fatal crash attributed to this check
                        vv.cls = "crash:" + vv.cls;
                        vv.sig = focus + "/crash/" + vv.sig;
                        vv.prop = focus;
                }
                auto it = out.found.find(vv.sig);
                if (it != out.found.end()) {
                        it->second.count++;
                        continue;
                }
                // gate 1: same plan, same hidden seeds -> same event hash and same class
                RunResult rg;
                exec_checked(sim, p, hidA, hidB, cd.paired, rg);
                const Violation *vg = first_relevant(rg, focus);
                if (!vg || rg.ev.h != r.ev.h) {
                        out.harness_errors.push_back(strfmt("violation did not reproduce in-process: run %llu sig %s",
                                                            (unsigned long long) i, vv.sig.c_str()));
                        continue;
                }
                // shrink
                int reruns = 0;
                Plan small = shrink(sim, p, hidA, hidB, cd.paired, focus, v->cls, v->sig, &reruns);
                RunResult rs;
                exec_checked(sim, small, hidA, hidB, cd.paired, rs);
                const Violation *vs = nullptr;
                for (auto &q : rs.viols)
                        if (relevant(q, focus) && q.cls == v->cls && (q.sig == v->sig || q.prop != focus)) {
                                vs = &q;
                                break;
                        }
                FoundViol fv;
                fv.run_index = i;
                fv.ops_before = p.ops.size();
                fv.reruns = reruns;
                if (vs) {
                        Violation vr = *vs;
                        if (vr.prop != focus)
                                vr.prop = focus;
                        fv.v = vv;
                        fv.v.detail = vs->detail;
                        fv.ops_after = small.ops.size();
                        fv.replay = write_replay(focus, tier, verif_seed, i, small, hidA, hidB, cd.paired, *vs, rs.ev.h, p, reruns);
                } else {
                        fv.v = vv;
                        fv.ops_after = p.ops.size();
                        fv.replay = write_replay(focus, tier, verif_seed, i, p, hidA, hidB, cd.paired, *v, r.ev.h, p, reruns);
                }
                out.found[vv.sig] = fv;
        }
        out.wall = now_s() - t0;
        for (auto &kv : env().calls_by_entry)
                out.calls[kv.first] += kv.second;
        serialize(out, outpath);
        sp->done[wid] = 1;
}

// ---------------------------------------------------------------- evidence
static std::string jstr(const std::string &s) { return "\"" + json_escape(s) + "\""; }

static int run_check(const std::string &prop, const std::string &tier)
{
        const CheckDef *cdp = find_check(prop);
        if (!cdp) {
                fprintf(stderr, "HARNESS: no check registered for %s\n", prop.c_str());
                return 2;
        }
        CheckDef cdv = *cdp;
        bool companion = false;
        if (g_fips_build && !cdv.fips && !cdv.fips_companion.empty()) {
                // companion pass: the same property and monitors, workloads run against the FIPS_MODE archive
                companion = true;
                cdv.sims = cdv.fips_companion;
                cdv.quick_runs = cdv.comp_quick_runs;
                cdv.thorough_runs = cdv.comp_thorough_runs;
                cdv.fips = true;
        }
        const CheckDef &cd = cdv;
        if (cd.fips != g_fips_build) {
                fprintf(stderr, "HARNESS: check %s needs the %s build\n", prop.c_str(), cd.fips ? "fips" : "std");
                return 2;
        }
        std::string st = models_selftest();
        if (!st.empty()) {
                fprintf(stderr, "HARNESS: reference model self-test failed: %s\n", st.c_str());
                return 2;
        }
        bool thorough = tier == "thorough";
        uint64_t verif_seed = 1;
        if (const char *s = getenv("VERIF_SEED"))
                verif_seed = strtoull(s, nullptr, 0);
        uint64_t nruns = thorough ? cd.thorough_runs : cd.quick_runs;
        double cap = thorough ? cd.thorough_cap_s : cd.quick_cap_s;
        if (const char *s = getenv("VERIF_RUNS"))
                nruns = strtoull(s, nullptr, 0);
        if (const char *s = getenv("VERIF_CAP_S"))
                cap = atof(s);
        int W = 16;
        if (const char *s = getenv("VERIF_WORKERS"))
                W = atoi(s);
        if (W < 1)
                W = 1;
        if (W > 64)
                W = 64;
        printf("check %s tier=%s VERIF_SEED=%llu runs<=%llu cap=%.0fs workers=%d build=%s\n", prop.c_str(), tier.c_str(),
               (unsigned long long) verif_seed, (unsigned long long) nruns, cap, W, g_fips_build ? "fips" : "std");
        fflush(stdout);
        double t0 = now_s();
        std::string od = out_dir();
        SharedProgress *sp = (SharedProgress *) mmap(nullptr, sizeof(SharedProgress), PROT_READ | PROT_WRITE, MAP_SHARED | MAP_ANONYMOUS, -1, 0);
        memset((void *) sp, 0, sizeof *sp);
        std::vector<pid_t> pids(W);
        std::vector<int> gen(W, 0);
        std::vector<std::string> outfiles;
        std::vector<std::string> harness_errors;
        auto spawn = [&](int w, uint64_t from) {
                std::string of = od + strfmt("/tmp/%s.%d.w%d.g%d.txt", prop.c_str(), (int) getpid(), w, gen[w]++);
                outfiles.push_back(of);
                fflush(stdout);
                pid_t pid = fork();
                if (pid == 0) {
                        worker_main(w, W, cd, tier, verif_seed, nruns, cap, sp, from, of);
                        fflush(stdout);
                        _exit(0);
                }
                pids[w] = pid;
        };
        for (int w = 0; w < W; w++)
                spawn(w, 0);
        int alive = W;
        while (alive > 0) {
                int status = 0;
                pid_t pid = wait(&status);
                if (pid < 0)
                        break;
                int w = -1;
                for (int k = 0; k < W; k++)
                        if (pids[k] == pid)
                                w = k;
                if (w < 0)
                        continue;
                if (WIFEXITED(status) && WEXITSTATUS(status) == 0 && sp->done[w]) {
                        alive--;
                        continue;
                }
                // worker died: harness error with the run index, restart after it
                uint64_t cur = sp->current[w];
                harness_errors.push_back(strfmt("worker %d died (status 0x%x) during run index %llu (VERIF_SEED=%llu)", w, status,
                                                (unsigned long long) cur, (unsigned long long) verif_seed));
                if (gen[w] > 20) {
                        alive--;
                        continue;
                }
                spawn(w, cur + 1);
        }
        WorkerOut acc;
        for (auto &of : outfiles) {
                deserialize_into(acc, of);
                unlink(of.c_str());
        }
        for (auto &h : acc.harness_errors)
                harness_errors.push_back(h);
        double wall = now_s() - t0;

        // ---- violation gate 2: fresh-process replay; classify against known findings
        std::vector<Finding> findings = load_findings();
        int unknown = 0, known = 0;
        std::vector<std::string> viol_lines;
        std::string self = "/proc/self/exe";
        for (auto &kv : acc.found) {
                FoundViol &fv = kv.second;
                // fresh process replay
                fflush(stdout);
                pid_t pid = fork();
                if (pid == 0) {
                        int fd = open("/dev/null", O_WRONLY);
                        dup2(fd, 1);
                        execl(self.c_str(), "isalsim", "replay", fv.replay.c_str(), (char *) nullptr);
                        _exit(9);
                }
                int status = 0;
                waitpid(pid, &status, 0);
                int rc = WIFEXITED(status) ? WEXITSTATUS(status) : 99;
                if (rc != 1) {
                        harness_errors.push_back(strfmt("replay of %s in a fresh process returned %d (expected 1): sig %s", fv.replay.c_str(),
                                                        rc, fv.v.sig.c_str()));
                        continue;
                }
                const Finding *kf = nullptr;
                for (auto &f : findings)
                        if (f.status == "open" && f.prop == prop && f.sig == fv.v.sig)
                                kf = &f;
                if (kf) {
                        known++;
                        printf("KNOWN-FINDING: property=%s %s [sig %s, %llu run(s), replay %s]\n", prop.c_str(), kf->what.c_str(),
                               fv.v.sig.c_str(), (unsigned long long) fv.count, fv.replay.c_str());
                } else {
                        unknown++;
                        printf("violation: %s class=%s sig=%s runs=%llu first_run=%llu ops %zu->%zu (%d shrink re-runs)\n  %s\n", prop.c_str(),
                               fv.v.cls.c_str(), fv.v.sig.c_str(), (unsigned long long) fv.count, (unsigned long long) fv.run_index,
                               fv.ops_before, fv.ops_after, fv.reruns, fv.v.detail.c_str());
                        printf("VIOLATION property=%s replay=%s\n", prop.c_str(), fv.replay.c_str());
                }
        }

        // ---- evidence
        std::vector<std::string> zero_probes;
        std::string counters = "{";
        {
                bool first = true;
                for (auto &kv : acc.cov.counters) {
                        if (!first)
                                counters += ",";
                        first = false;
                        counters += jstr(kv.first) + ":" + strfmt("%llu", (unsigned long long) kv.second);
                        if (kv.second == 0)
                                zero_probes.push_back(kv.first);
                }
                counters += "}";
        }
        std::string calls = "{";
        {
                bool first = true;
                for (auto &kv : acc.calls) {
                        if (!first)
                                calls += ",";
                        first = false;
                        calls += jstr(kv.first) + ":" + strfmt("%llu", (unsigned long long) kv.second);
                }
                calls += "}";
        }
        std::string obs = "{";
        {
                bool first = true;
                for (auto &kv : acc.observations) {
                        if (!first)
                                obs += ",";
                        first = false;
                        obs += jstr(kv.first) + ":" + strfmt("%llu", (unsigned long long) kv.second);
                }
                obs += "}";
        }
        std::string samples = "[";
        for (size_t i = 0; i < acc.samples.size() && i < 4; i++) {
                if (i)
                        samples += ",";
                samples += jstr(acc.samples[i]);
        }
        samples += "]";
        std::string vio = "[";
        {
                bool first = true;
                for (auto &kv : acc.found) {
                        if (!first)
                                vio += ",";
                        first = false;
                        vio += "{\"sig\":" + jstr(kv.second.v.sig) + ",\"class\":" + jstr(kv.second.v.cls) + ",\"detail\":" + jstr(kv.second.v.detail) +
                               ",\"replay\":" + jstr(kv.second.replay) +
                               strfmt(",\"runs\":%llu,\"ops_before\":%zu,\"ops_after\":%zu}", (unsigned long long) kv.second.count,
                                      kv.second.ops_before, kv.second.ops_after);
                }
                vio += "]";
        }
        std::string real = "[", stub = "[";
        {
                std::set<std::string> rs, ss;
                for (auto &sw : cd.sims) {
                        Sim *s = get_sim(sw.sim);
                        for (auto &c : s->real_components())
                                rs.insert(c);
                        for (auto &c : s->stub_components())
                                ss.insert(c);
                }
                bool first = true;
                for (auto &c : rs) {
                        if (!first)
                                real += ",";
                        first = false;
                        real += jstr(c);
                }
                first = true;
                for (auto &c : ss) {
                        if (!first)
                                stub += ",";
                        first = false;
                        stub += jstr(c);
                }
                real += "]";
                stub += "]";
        }
        std::string assum = "[";
        for (size_t i = 0; i < cd.assumptions.size(); i++) {
                if (i)
                        assum += ",";
                assum += jstr(cd.assumptions[i]);
        }
        assum += "]";
        std::string herr = "[";
        for (size_t i = 0; i < harness_errors.size(); i++) {
                if (i)
                        herr += ",";
                herr += jstr(harness_errors[i]);
        }
        herr += "]";
        uint64_t distinct = acc.cov.states.size();
        std::string ev = "{\n";
        ev += " \"property_id\":" + jstr(prop) + ",\n \"tier\":" + jstr(tier) + strfmt(",\n \"seed\":%llu", (unsigned long long) verif_seed) +
              ",\n \"level\":" + jstr(cd.level) + ",\n \"coverage\":{\n";
        ev += strfmt("  \"evaluations\":%llu,\n  \"distinct_nontrivial\":%llu,\n", (unsigned long long) acc.runs, (unsigned long long) distinct);
        ev += "  \"rule\":" + jstr(cd.rule) + ",\n  \"samples\":" + samples + ",\n";
        ev += strfmt("  \"simulated_runs\":%llu,\n  \"runs_per_hour\":%.0f,\n  \"seeds_per_hour\":%.0f,\n  \"logical_steps\":%llu,\n",
                     (unsigned long long) acc.runs, wall > 0 ? acc.runs * 3600.0 / wall : 0.0, wall > 0 ? acc.runs * 3600.0 / wall : 0.0,
                     (unsigned long long) acc.steps);
        ev += "  \"simulated_time\":\"the library has no clock; time is logical steps (library calls / scheduler events)\",\n";
        ev += strfmt("  \"paired_runs\":%llu,\n  \"determinism_rechecks\":%llu,\n  \"tainted_runs\":%llu,\n", (unsigned long long) acc.paired_runs,
                     (unsigned long long) acc.determinism_rechecks, (unsigned long long) acc.tainted);
        ev += "  \"fault_and_probe_counters\":" + counters + ",\n";
        ev += "  \"probes_at_zero\":[";
        for (size_t i = 0; i < zero_probes.size(); i++)
                ev += (i ? "," : "") + jstr(zero_probes[i]);
        ev += "],\n";
        ev += "  \"library_calls_by_entry\":" + calls + ",\n";
        if (prop == "C19" || prop == "C08" || prop == "C20") {
                // exported library functions (nm " T " of the archive) that no simulation called by name through the trampoline
                std::string never = "[";
                size_t n_never = 0, n_all = 0;
                if (const char *need = getenv("ISALSIM_NEED")) {
                        std::string dir = need;
                        dir = dir.substr(0, dir.rfind('/'));
                        std::string nm = read_file(dir + "/nm.txt");
                        std::set<std::string> all;
                        size_t i = 0;
                        while (i < nm.size()) {
                                size_t j = nm.find('\n', i);
                                if (j == std::string::npos)
                                        j = nm.size();
                                std::string ln = nm.substr(i, j - i);
                                i = j + 1;
                                size_t k = ln.find(" T ");
                                if (k == std::string::npos)
                                        continue;
                                std::string sym = ln.substr(k + 3);
                                if (sym.find("_slver") != std::string::npos || sym == "TABLE")
                                        continue;
                                all.insert(sym);
                        }
                        n_all = all.size();
                        for (auto &sym : all)
                                if (!acc.calls.count(sym)) {
                                        never += (n_never ? "," : "") + jstr(sym);
                                        n_never++;
                                }
                }
                never += "]";
                ev += strfmt("  \"exported_functions\":%zu,\n  \"exported_functions_never_called_directly\":%zu,\n", n_all, n_never);
                ev += "  \"exported_functions_never_called_directly_list\":" + never + ",\n";
                ev += "  \"never_called_note\":\"<entry> / <entry>_mbinit / <entry>_dispatch_init are the dispatch trampolines and resolvers (reached through the public wrappers; resolvers are called directly by DispatchSim under C12/C19); *_mb_x*/sha*_ni_x*/sha*_opt_x1/md5_mb_x* kernels use a private register convention and are reached through their lane schedulers; self-test and FIPS entry points belong to the FIPS build\",\n";
        }
        ev += "  \"components_real\":" + real + ",\n  \"components_stub\":" + stub + ",\n";
        ev += "  \"observations_other_properties\":" + obs + ",\n";
        ev += "  \"violations_found\":" + vio + ",\n";
        ev += strfmt("  \"known_findings_hit\":%d,\n  \"workers\":%d,\n", known, W);
        ev += "  \"harness_errors\":" + herr + "\n },\n";
        ev += " \"assumptions\":" + assum + strfmt(",\n \"wall_s\":%.2f,\n \"violations\":%d\n}\n", wall, unknown);
        mkdir("/verif/evidence", 0755);
        const char *evd = getenv("VERIF_EVIDENCE_DIR");
        std::string evpath = std::string(evd ? evd : "/verif/evidence") + "/" + prop + (companion ? ".fips-pass.json" : ".json");
        write_file(evpath, ev);
        printf("%s %s%s: %llu runs, %llu distinct states, %llu steps, %.1fs, %d violation(s), %d known finding(s), %zu harness error(s)\n",
               prop.c_str(), tier.c_str(), companion ? " (FIPS-build pass)" : "", (unsigned long long) acc.runs, (unsigned long long) distinct, (unsigned long long) acc.steps, wall,
               unknown, known, harness_errors.size());
        for (auto &h : harness_errors)
                printf("HARNESS-ERROR: %s\n", h.c_str());
        if (unknown)
                return 1;
        if (!harness_errors.empty())
                return 2;
        return 0;
}

// ---------------------------------------------------------------- determinism self-test
static int selftest_determinism(const std::string &prop, uint64_t n)
{
        const CheckDef *cdp0 = find_check(prop);
        if (!cdp0)
                return 2;
        CheckDef cdv = *cdp0;
        if (g_fips_build && !cdv.fips && !cdv.fips_companion.empty())
                cdv.sims = cdv.fips_companion; // the FIPS-build pass of a std-build check
        const CheckDef *cdp = &cdv;
        g_focus = prop;
        uint64_t verif_seed = 1;
        if (const char *s = getenv("VERIF_SEED"))
                verif_seed = strtoull(s, nullptr, 0);
        // print one line per run: index and event hash; the caller diffs outputs of separate processes
        int wid = 0, W = 1;
        if (const char *s = getenv("VERIF_WID"))
                wid = atoi(s);
        if (const char *s = getenv("VERIF_WORKERS"))
                W = atoi(s);
        for (uint64_t i = 0; i < n; i++) {
                if ((int) (i % W) != wid)
                        continue;
                uint64_t seed_i = mix64(verif_seed, i);
                const char *sname = pick_sim(*cdp, seed_i, i, false);
                Sim *sim = get_sim(sname);
                Plan p = sim->generate(seed_i, prop, false, i);
                p.sim = sname;
                p.seed = seed_i;
                RunResult r;
                exec_checked(sim, p, mix64(seed_i, 0xA11CE), mix64(seed_i, 0xB0B), cdp->paired, r);
                printf("%llu %016llx %016llx %zu\n", (unsigned long long) i, (unsigned long long) r.ev.h, (unsigned long long) r.obs.h,
                       r.viols.size());
        }
        return 0;
}

extern const bool g_build_is_fips;
void register_all_checks() {}

int main(int argc, char **argv)
{
        setvbuf(stdout, nullptr, _IOLBF, 0);
        g_fips_build = g_build_is_fips;
        register_all_checks();
        if (argc >= 4 && !strcmp(argv[1], "check"))
                return run_check(argv[2], argv[3]);
        if (argc >= 3 && !strcmp(argv[1], "replay")) {
                int rc = do_replay(argv[2], false);
                return rc;
        }
        if (argc >= 4 && !strcmp(argv[1], "determinism"))
                return selftest_determinism(argv[2], strtoull(argv[3], nullptr, 0));
        if (argc >= 2 && !strcmp(argv[1], "refcache")) {
                // precompute the long-stream reference states in parallel (one process per (algorithm, length))
                extern RefHash long_reference(Algo a, uint64_t goal);
                extern std::vector<std::pair<int, uint64_t>> long_reference_keys();
                get_sim("hashlong");
                std::vector<pid_t> kids;
                for (auto &k : long_reference_keys()) {
                        pid_t pid = fork();
                        if (pid == 0) {
                                long_reference((Algo) k.first, k.second);
                                _exit(0);
                        }
                        kids.push_back(pid);
                }
                int bad = 0;
                for (pid_t k : kids) {
                        int st = 0;
                        waitpid(k, &st, 0);
                        bad += !(WIFEXITED(st) && WEXITSTATUS(st) == 0);
                }
                printf("long-stream reference cache: %zu entries, %d failed\n", kids.size(), bad);
                return bad ? 2 : 0;
        }
        if (argc >= 2 && !strcmp(argv[1], "selftest")) {
                std::string s = models_selftest();
                if (!s.empty()) {
                        printf("FAIL: %s\n", s.c_str());
                        return 2;
                }
                printf("reference models ok\n");
                return 0;
        }
        fprintf(stderr, "usage: isalsim check <Cxx> quick|thorough | replay <file> | determinism <Cxx> <n> | selftest\n");
        return 2;
}
