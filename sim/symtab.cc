// symtab.cc — read the executable's own .symtab (link is -no-pie, so addresses are absolute).
// Gives access to every library symbol including STV_INTERNAL family entry points and local
// data such as self_test_status and the <entry>_dispatched slots.
#include "sim.h"
#include <elf.h>
#include <fcntl.h>
#include <sys/mman.h>
#include <sys/stat.h>
#include <unistd.h>
#include <unordered_map>
#include <algorithm>

struct SymEnt {
        std::string name;
        uintptr_t addr;
        size_t size;
        int type;
        int shndx;
        std::string file; // STT_FILE entry preceding a local symbol ("" for globals)
};
static std::unordered_map<std::string, SymEnt> g_syms;
static std::vector<SymEnt> g_sorted;
struct SecEnt {
        std::string name;
        uintptr_t addr;
        size_t size;
        uint64_t flags;
};
static std::vector<SecEnt> g_secs;
static bool g_loaded = false;

static void load()
{
        if (g_loaded)
                return;
        g_loaded = true;
        int fd = open("/proc/self/exe", O_RDONLY);
        if (fd < 0) {
                perror("open self");
                abort();
        }
        struct stat st;
        fstat(fd, &st);
        uint8_t *m = (uint8_t *) mmap(nullptr, st.st_size, PROT_READ, MAP_PRIVATE, fd, 0);
        close(fd);
        if (m == MAP_FAILED) {
                perror("mmap self");
                abort();
        }
        Elf64_Ehdr *eh = (Elf64_Ehdr *) m;
        Elf64_Shdr *sh = (Elf64_Shdr *) (m + eh->e_shoff);
        const char *shstr = (const char *) (m + sh[eh->e_shstrndx].sh_offset);
        for (int i = 0; i < eh->e_shnum; i++)
                g_secs.push_back({ shstr + sh[i].sh_name, (uintptr_t) sh[i].sh_addr, (size_t) sh[i].sh_size, sh[i].sh_flags });
        for (int i = 0; i < eh->e_shnum; i++) {
                if (sh[i].sh_type != SHT_SYMTAB)
                        continue;
                Elf64_Sym *sy = (Elf64_Sym *) (m + sh[i].sh_offset);
                size_t n = sh[i].sh_size / sizeof(Elf64_Sym);
                const char *str = (const char *) (m + sh[sh[i].sh_link].sh_offset);
                std::string cur_file;
                for (size_t k = 0; k < n; k++) {
                        int ty = ELF64_ST_TYPE(sy[k].st_info);
                        if (ty == STT_FILE) {
                                cur_file = str + sy[k].st_name;
                                continue;
                        }
                        if (sy[k].st_name == 0 || sy[k].st_shndx == SHN_UNDEF)
                                continue;
                        if (ty == STT_SECTION)
                                continue;
                        SymEnt e{ str + sy[k].st_name, (uintptr_t) sy[k].st_value, (size_t) sy[k].st_size, ty, sy[k].st_shndx,
                                  ELF64_ST_BIND(sy[k].st_info) == STB_LOCAL ? cur_file : std::string() };
                        // prefer global definitions if duplicates (local labels in several objects)
                        auto it = g_syms.find(e.name);
                        if (it == g_syms.end() || ELF64_ST_BIND(sy[k].st_info) != STB_LOCAL)
                                g_syms[e.name] = e;
                        g_sorted.push_back(e);
                }
        }
        std::sort(g_sorted.begin(), g_sorted.end(), [](const SymEnt &a, const SymEnt &b) { return a.addr < b.addr; });
        munmap(m, st.st_size);
}

void *libsym(const char *name, bool required)
{
        load();
        auto it = g_syms.find(name);
        if (it == g_syms.end()) {
                if (required) {
                        fprintf(stderr, "HARNESS: symbol %s not found in the linked library\n", name);
                        exit(2);
                }
                return nullptr;
        }
        return (void *) it->second.addr;
}

// nearest symbol at or below addr: "name+off"
std::string addr_to_sym(uintptr_t addr)
{
        load();
        auto it = std::upper_bound(g_sorted.begin(), g_sorted.end(), addr, [](uintptr_t a, const SymEnt &e) { return a < e.addr; });
        if (it == g_sorted.begin())
                return strfmt("0x%lx", (unsigned long) addr);
        --it;
        // choose the best name among symbols with identical address (prefer one without leading '.')
        return strfmt("%s+%lu", it->name.c_str(), (unsigned long) (addr - it->addr));
}

bool section_range(const char *name, uintptr_t *lo, uintptr_t *hi)
{
        load();
        for (auto &s : g_secs)
                if (s.name == name) {
                        *lo = s.addr;
                        *hi = s.addr + s.size;
                        return true;
                }
        return false;
}

// all symbols whose address lies in [lo,hi)
std::vector<std::pair<std::string, uintptr_t>> symbols_in(uintptr_t lo, uintptr_t hi)
{
        load();
        std::vector<std::pair<std::string, uintptr_t>> v;
        for (auto &e : g_sorted)
                if (e.addr >= lo && e.addr < hi)
                        v.emplace_back(e.name, e.addr);
        return v;
}

// local symbols in [lo,hi) that belong to a source file whose name starts with 'file_prefix'
std::vector<std::pair<std::string, uintptr_t>> symbols_in_of_file(uintptr_t lo, uintptr_t hi, const char *file_prefix)
{
        load();
        std::vector<std::pair<std::string, uintptr_t>> v;
        size_t pl = strlen(file_prefix);
        for (auto &e : g_sorted)
                if (e.addr >= lo && e.addr < hi && e.file.compare(0, pl, file_prefix) == 0 && !e.file.empty())
                        v.emplace_back(e.name, e.addr);
        return v;
}

std::vector<std::string> symbols_matching(const char *prefix, const char *suffix)
{
        load();
        std::vector<std::string> v;
        size_t pl = strlen(prefix), sl = strlen(suffix);
        for (auto &kv : g_syms) {
                const std::string &n = kv.first;
                if (n.size() >= pl + sl && n.compare(0, pl, prefix) == 0 && n.compare(n.size() - sl, sl, suffix) == 0)
                        v.push_back(n);
        }
        std::sort(v.begin(), v.end());
        return v;
}
