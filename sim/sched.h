// sched.h — cooperative task scheduler (ucontext coroutines on one OS thread).
// Exactly one task runs between two yield points; the scheduler (seeded) picks the next one.
#pragma once
#include "core.h"
#include <ucontext.h>
#include <sys/mman.h>
#include <functional>

struct CoTask {
        ucontext_t ctx;
        uint8_t *stack = nullptr;
        std::function<void()> fn;
        bool done = true;
        bool started = false;
        int id = 0;
        uint64_t steps = 0;      // scheduling steps this task received
        int priority = 0;        // PCT
        uint64_t last_point = 0; // last yield point (program point for the state measure)
};

class CoSched
{
      public:
        static const size_t STACK = 512 * 1024;
        static const int MAXT = 16;
        CoSched()
        {
                for (int i = 0; i < MAXT; i++) {
                        uint8_t *m = (uint8_t *) mmap(nullptr, STACK + 8192, PROT_NONE, MAP_PRIVATE | MAP_ANONYMOUS | MAP_NORESERVE, -1, 0);
                        mprotect(m + 4096, STACK, PROT_READ | PROT_WRITE);
                        tasks_[i].stack = m + 4096;
                        tasks_[i].id = i;
                }
        }
        void reset()
        {
                n_ = 0;
                cur_ = -1;
                events = 0;
                trace.h = 0x1234;
                trace.n = 0;
        }
        int spawn(std::function<void()> fn)
        {
                CoTask &t = tasks_[n_];
                t.fn = std::move(fn);
                t.done = false;
                t.started = false;
                t.steps = 0;
                t.priority = 0;
                t.last_point = 0;
                return n_++;
        }
        int current() const { return cur_; }
        int ntasks() const { return n_; }
        CoTask &task(int i) { return tasks_[i]; }
        bool all_done() const
        {
                for (int i = 0; i < n_; i++)
                        if (!tasks_[i].done)
                                return false;
                return true;
        }
        std::vector<int> runnable() const
        {
                std::vector<int> v;
                for (int i = 0; i < n_; i++)
                        if (!tasks_[i].done)
                                v.push_back(i);
                return v;
        }
        // called from inside a task
        void yield(uint64_t point)
        {
                if (cur_ < 0)
                        return;
                trace.add(mix64((uint64_t) cur_, point));
                events++;
                CoTask &t = tasks_[cur_];
                t.last_point = point;
                swapcontext(&t.ctx, &main_);
        }
        // run task i until its next yield (or completion)
        void step(int i)
        {
                CoTask &t = tasks_[i];
                cur_ = i;
                t.steps++;
                if (!t.started) {
                        t.started = true;
                        getcontext(&t.ctx);
                        t.ctx.uc_stack.ss_sp = t.stack;
                        t.ctx.uc_stack.ss_size = STACK;
                        t.ctx.uc_link = &main_;
                        self_ = this;
                        makecontext(&t.ctx, (void (*)()) trampoline, 1, i);
                }
                self_ = this;
                swapcontext(&main_, &t.ctx);
                cur_ = -1;
        }
        EvHash trace;      // sequence of (task, yield point)
        uint64_t events = 0;

      private:
        static void trampoline(int i)
        {
                CoSched *s = self_;
                CoTask &t = s->tasks_[i];
                t.fn();
                t.done = true;
                // returning switches to uc_link (main_)
        }
        static inline CoSched *self_ = nullptr;
        CoTask tasks_[MAXT];
        int n_ = 0, cur_ = -1;
        ucontext_t main_;
};
