// core.h — PRNG discipline, event hashing, plans/ops, violations, JSON helpers.
// Everything a run does is a pure function of (plan, hidden_seed, code under test).
#pragma once
#include <cstdint>
#include <cstring>
#include <cstdio>
#include <cstdlib>
#include <string>
#include <vector>
#include <map>
#include <set>
#include <unordered_set>
#include <stdexcept>
#include <functional>

// ---------------------------------------------------------------- PRNG
static inline uint64_t splitmix64(uint64_t &x)
{
        uint64_t z = (x += 0x9e3779b97f4a7c15ULL);
        z = (z ^ (z >> 30)) * 0xbf58476d1ce4e5b9ULL;
        z = (z ^ (z >> 27)) * 0x94d049bb133111ebULL;
        return z ^ (z >> 31);
}
static inline uint64_t mix64(uint64_t a, uint64_t b)
{
        uint64_t x = a ^ (b * 0xd6e8feb86659fd93ULL) ^ 0x2545F4914F6CDD1DULL;
        uint64_t r = splitmix64(x);
        r ^= splitmix64(x);
        return r;
}
static inline uint64_t hash_str(const char *s)
{
        uint64_t h = 0xcbf29ce484222325ULL;
        while (*s) {
                h ^= (uint8_t) *s++;
                h *= 0x100000001b3ULL;
        }
        return h;
}

struct Rng {
        uint64_t s[4];
        Rng() { seed(0); }
        explicit Rng(uint64_t sd) { seed(sd); }
        Rng(uint64_t sd, const char *stream) { seed(mix64(sd, hash_str(stream))); }
        void seed(uint64_t sd)
        {
                uint64_t x = sd;
                for (int i = 0; i < 4; i++)
                        s[i] = splitmix64(x);
        }
        static inline uint64_t rotl(uint64_t x, int k) { return (x << k) | (x >> (64 - k)); }
        uint64_t next()
        {
                const uint64_t result = rotl(s[1] * 5, 7) * 9;
                const uint64_t t = s[1] << 17;
                s[2] ^= s[0];
                s[3] ^= s[1];
                s[1] ^= s[2];
                s[0] ^= s[3];
                s[2] ^= t;
                s[3] = rotl(s[3], 45);
                return result;
        }
        // uniform in [0,n) (n>0); slight modulo bias is irrelevant here but avoided anyway
        uint64_t below(uint64_t n)
        {
                if (n <= 1)
                        return 0;
                return (uint64_t) (((unsigned __int128) next() * n) >> 64);
        }
        uint64_t range(uint64_t lo, uint64_t hi) { return lo + below(hi - lo + 1); } // inclusive
        bool chance(uint64_t num, uint64_t den) { return below(den) < num; }
        void fill(void *p, size_t n)
        {
                uint8_t *b = (uint8_t *) p;
                while (n >= 8) {
                        uint64_t v = next();
                        memcpy(b, &v, 8);
                        b += 8;
                        n -= 8;
                }
                if (n) {
                        uint64_t v = next();
                        memcpy(b, &v, n);
                }
        }
        template <class T> const T &pick(const std::vector<T> &v) { return v[below(v.size())]; }
};

// ---------------------------------------------------------------- event hash
struct EvHash {
        uint64_t h = 0x6a09e667f3bcc908ULL;
        uint64_t n = 0;
        inline void add(uint64_t v)
        {
                h = (h ^ v) * 0x100000001b3ULL;
                h ^= h >> 29;
                n++;
        }
        void add_bytes(const void *p, size_t len)
        {
                const uint8_t *b = (const uint8_t *) p;
                uint64_t acc = 0xcbf29ce484222325ULL ^ len;
                while (len >= 8) {
                        uint64_t v;
                        memcpy(&v, b, 8);
                        acc = (acc ^ v) * 0x100000001b3ULL;
                        acc ^= acc >> 31;
                        b += 8;
                        len -= 8;
                }
                while (len--) {
                        acc = (acc ^ *b++) * 0x100000001b3ULL;
                }
                add(acc);
        }
};
static inline uint64_t hash_bytes(const void *p, size_t len)
{
        EvHash e;
        e.add_bytes(p, len);
        return e.h;
}

// ---------------------------------------------------------------- plans
struct Op {
        int kind = 0;
        int64_t a = 0, b = 0, c = 0, d = 0;
};
struct Plan {
        std::string sim;                      // which simulation
        uint64_t seed = 0;                    // seed_i the plan was generated from
        std::map<std::string, int64_t> cfg;   // swarm configuration of the run
        std::vector<Op> ops;
        int64_t get(const char *k, int64_t def = 0) const
        {
                auto it = cfg.find(k);
                return it == cfg.end() ? def : it->second;
        }
};

// ---------------------------------------------------------------- violations
struct Violation {
        std::string prop;   // C01 ...
        std::string cls;    // violation class within the property
        std::string sig;    // signature for known-finding matching (prop/cls/site)
        std::string detail; // human readable
        int op_index = -1;
        uint64_t ev_seq = 0;
};

struct RunAbort : std::exception {}; // a violation ended the run early

// Per-run coverage: named counters (fault kinds fired, probes) and state hashes.
struct Coverage {
        std::map<std::string, uint64_t> counters;
        std::unordered_set<uint64_t> states;
        void hit(const std::string &k, uint64_t n = 1) { counters[k] += n; }
        void state(uint64_t h) { states.insert(h); }
        void merge(const Coverage &o)
        {
                for (auto &kv : o.counters)
                        counters[kv.first] += kv.second;
                states.insert(o.states.begin(), o.states.end());
        }
};

struct RunResult {
        std::vector<Violation> viols;
        EvHash ev;       // full event log hash (schedule + observables)
        EvHash obs;      // observable history only (C20)
        std::vector<uint64_t> obs_trace; // per-event observable hashes (for first-diff)
        std::vector<uint32_t> obs_tags;  // per-event tags (which observable)
        uint64_t steps = 0;
        Coverage cov;
        std::string sample; // short human-readable rendering of the case (filled on demand)
};

// ---------------------------------------------------------------- tiny JSON
std::string json_escape(const std::string &s);
std::string plan_to_json(const Plan &p);
bool plan_from_json(const std::string &txt, Plan &p, std::string *err = nullptr);

// minimal JSON value + parser (objects, arrays, strings, integers, bools, null, doubles)
struct JVal {
        enum T { NUL, BOOL, NUM, STR, ARR, OBJ } t = NUL;
        bool b = false;
        double d = 0;
        int64_t i = 0;
        bool is_int = false;
        std::string s;
        std::vector<JVal> a;
        std::vector<std::pair<std::string, JVal>> o;
        const JVal *get(const char *k) const
        {
                for (auto &kv : o)
                        if (kv.first == k)
                                return &kv.second;
                return nullptr;
        }
        int64_t geti(const char *k, int64_t def = 0) const
        {
                const JVal *v = get(k);
                return v && v->t == NUM ? v->i : def;
        }
        std::string gets(const char *k, const std::string &def = "") const
        {
                const JVal *v = get(k);
                return v && v->t == STR ? v->s : def;
        }
};
bool json_parse(const std::string &txt, JVal &out, std::string *err = nullptr);
std::string read_file(const std::string &path);
bool write_file(const std::string &path, const std::string &txt);

std::string strfmt(const char *fmt, ...) __attribute__((format(printf, 1, 2)));
std::string hex(const void *p, size_t n);
