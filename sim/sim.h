// sim.h — interface between the driver and the simulations.
#pragma once
#include "core.h"
#include "cpu.h"

struct Sim {
        virtual ~Sim() {}
        virtual const char *name() const = 0;
        // Plan = pure function of (seed, focus property, tier).
        virtual Plan generate(uint64_t seed, const std::string &focus, bool thorough, uint64_t run_index) = 0;
        // Execute on a prepared Env (begin_run done). Must be a pure function of (plan, env.hidden seed).
        virtual void execute(const Plan &p, Env &env, RunResult &r) = 0;
        // short rendering of a plan for evidence samples
        virtual std::string render(const Plan &p) const { return plan_to_json(p); }
        // which op kinds may be dropped by the shrinker (default: all)
        virtual bool droppable(const Op &) const { return true; }
        // one-time per-process initialisation (after fork)
        virtual void process_init() {}
        // components list for evidence
        virtual std::vector<std::string> real_components() const { return {}; }
        virtual std::vector<std::string> stub_components() const { return {}; }
};

Sim *make_hashmgr_sim();
Sim *make_hashlong_sim();
Sim *make_hashgiant_sim();
Sim *make_hashendure_sim();
Sim *make_hashfill_sim();
Sim *make_hashedge_sim();
Sim *make_hashjump_sim();
Sim *make_l2mgr_sim();
Sim *make_stream_sim();
Sim *make_streamhuge_sim();
Sim *make_gcmhuge_sim();
Sim *make_cbchuge_sim();
Sim *make_gcmjump_sim();
const uint8_t *huge_in_window();
uint8_t *huge_out_window();
uint8_t *huge_out_pattern();
size_t huge_period();
Sim *make_oneshot_sim();
Sim *make_dispatch_sim();
Sim *make_fipsgate_sim();
Sim *make_fipsrace_sim();
Sim *make_shared_sim();

// focus handling inside sims: Env carries the focus property id
extern std::string g_focus;
// true when the linked archive is a FIPS_MODE build
extern bool g_fips_build;
// when set, workloads call family symbols only and never touch dispatch slots (tasks interleaved by SharedStateSim)
extern bool g_force_family_api;
Sim *get_sim_by_name(const std::string &n);

// symbol lookup in the linked library (harness is linked with -rdynamic; dlsym(RTLD_DEFAULT))
void *libsym(const char *name, bool required = true);
std::string addr_to_sym(uintptr_t addr);
bool section_range(const char *name, uintptr_t *lo, uintptr_t *hi);
std::vector<std::pair<std::string, uintptr_t>> symbols_in(uintptr_t lo, uintptr_t hi);
std::vector<std::string> symbols_matching(const char *prefix, const char *suffix);
std::vector<std::pair<std::string, uintptr_t>> symbols_in_of_file(uintptr_t lo, uintptr_t hi, const char *file_prefix);

// AAD length classes shared by the GCM workloads: the AAD hash has its own bulk loops (8 x 16, 16 x 16 and 32 x 16 byte groups), so
// lengths are drawn around multiples of 16, 128, 256 and 512 bytes as well as from the short range real protocols use
static inline size_t gcm_aad_len_class(uint64_t x)
{
        uint64_t y = x >> 4;
        switch (x % 16) {
        case 0: case 1: case 2: return 0;
        case 3: case 4: case 5: case 6: return (size_t) (y % 40);
        case 7: case 8: return (size_t) (y % 200);
        case 9: return (size_t) (16 * (y % 70));
        case 10: return (size_t) (16 * (y % 70) + 1 + (y >> 7) % 15);
        case 11: return (size_t) (128 * (1 + y % 16) - 1 + (y >> 4) % 3);
        case 12: return (size_t) (256 * (1 + y % 8) - 1 + (y >> 3) % 3);
        case 13: return (size_t) (512 * (1 + y % 4) + (y >> 2) % 257);
        case 14: return (size_t) (y % 2100);
        default: return (size_t) (256 * (1 + y % 3));
        }
}
