// sim.h — interface between the driver and the simulations.
#pragma once
#include "core.h"
#include "cpu.h"

struct Sim {
        virtual ~Sim() {}
        virtual const char *name() const = 0;
        // Plan = pure function of (seed, focus property, tier).
        virtual Plan generate(uint64_t seed, const std::string &focus, bool thorough, uint64_t run_index) = 0;
        // Execute on a prepared Env (begin_run done). Must be a pure function of (plan, env.hidden seed).
        virtual void execute(const Plan &p, Env &env, RunResult &r) = 0;
        // short rendering of a plan for evidence samples
        virtual std::string render(const Plan &p) const { return plan_to_json(p); }
        // which op kinds may be dropped by the shrinker (default: all)
        virtual bool droppable(const Op &) const { return true; }
        // one-time per-process initialisation (after fork)
        virtual void process_init() {}
        // components list for evidence
        virtual std::vector<std::string> real_components() const { return {}; }
        virtual std::vector<std::string> stub_components() const { return {}; }
};

Sim *make_hashmgr_sim();
Sim *make_hashlong_sim();
Sim *make_hashgiant_sim();
Sim *make_l2mgr_sim();
Sim *make_stream_sim();
Sim *make_oneshot_sim();
Sim *make_dispatch_sim();
Sim *make_fipsgate_sim();
Sim *make_fipsrace_sim();
Sim *make_shared_sim();

// focus handling inside sims: Env carries the focus property id
extern std::string g_focus;
// true when the linked archive is a FIPS_MODE build
extern bool g_fips_build;
// when set, workloads call family symbols only and never touch dispatch slots (tasks interleaved by SharedStateSim)
extern bool g_force_family_api;
Sim *get_sim_by_name(const std::string &n);

// symbol lookup in the linked library (harness is linked with -rdynamic; dlsym(RTLD_DEFAULT))
void *libsym(const char *name, bool required = true);
std::string addr_to_sym(uintptr_t addr);
bool section_range(const char *name, uintptr_t *lo, uintptr_t *hi);
std::vector<std::pair<std::string, uintptr_t>> symbols_in(uintptr_t lo, uintptr_t hi);
std::vector<std::string> symbols_matching(const char *prefix, const char *suffix);
