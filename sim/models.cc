#include "models.h"
#include "golden_rolling_table.h"
#include <cstring>
#include <cstdio>

const char *algo_name[A_N] = { "sha1", "sha256", "sha512", "md5", "sm3" };

static inline uint32_t rol32(uint32_t x, int n) { return (x << n) | (x >> ((32 - n) & 31)); }
static inline uint32_t ror32(uint32_t x, int n) { return (x >> n) | (x << ((32 - n) & 31)); }
static inline uint64_t ror64(uint64_t x, int n) { return (x >> n) | (x << ((64 - n) & 63)); }
static inline uint64_t rol64(uint64_t x, int n) { return n ? (x << n) | (x >> (64 - n)) : x; }
static inline uint32_t be32(const uint8_t *p) { return ((uint32_t) p[0] << 24) | ((uint32_t) p[1] << 16) | ((uint32_t) p[2] << 8) | p[3]; }
static inline uint32_t le32(const uint8_t *p) { return ((uint32_t) p[3] << 24) | ((uint32_t) p[2] << 16) | ((uint32_t) p[1] << 8) | p[0]; }
static inline uint64_t be64(const uint8_t *p) { return ((uint64_t) be32(p) << 32) | be32(p + 4); }
static inline void put_be32(uint8_t *p, uint32_t v) { p[0] = v >> 24; p[1] = v >> 16; p[2] = v >> 8; p[3] = v; }
static inline void put_le32(uint8_t *p, uint32_t v) { p[3] = v >> 24; p[2] = v >> 16; p[1] = v >> 8; p[0] = v; }
static inline void put_be64(uint8_t *p, uint64_t v) { put_be32(p, v >> 32); put_be32(p + 4, (uint32_t) v); }

// ------------------------------------------------------------------ SHA-1
static void sha1_block(uint32_t h[5], const uint8_t *b)
{
        uint32_t w[80];
        for (int i = 0; i < 16; i++)
                w[i] = be32(b + 4 * i);
        for (int i = 16; i < 80; i++)
                w[i] = rol32(w[i - 3] ^ w[i - 8] ^ w[i - 14] ^ w[i - 16], 1);
        uint32_t a = h[0], bb = h[1], c = h[2], d = h[3], e = h[4];
        for (int i = 0; i < 80; i++) {
                uint32_t f, k;
                if (i < 20) {
                        f = (bb & c) | (~bb & d);
                        k = 0x5A827999;
                } else if (i < 40) {
                        f = bb ^ c ^ d;
                        k = 0x6ED9EBA1;
                } else if (i < 60) {
                        f = (bb & c) | (bb & d) | (c & d);
                        k = 0x8F1BBCDC;
                } else {
                        f = bb ^ c ^ d;
                        k = 0xCA62C1D6;
                }
                uint32_t t = rol32(a, 5) + f + e + k + w[i];
                e = d;
                d = c;
                c = rol32(bb, 30);
                bb = a;
                a = t;
        }
        h[0] += a;
        h[1] += bb;
        h[2] += c;
        h[3] += d;
        h[4] += e;
}

// ------------------------------------------------------------------ SHA-256
static const uint32_t K256[64] = {
        0x428a2f98, 0x71374491, 0xb5c0fbcf, 0xe9b5dba5, 0x3956c25b, 0x59f111f1, 0x923f82a4, 0xab1c5ed5, 0xd807aa98, 0x12835b01,
        0x243185be, 0x550c7dc3, 0x72be5d74, 0x80deb1fe, 0x9bdc06a7, 0xc19bf174, 0xe49b69c1, 0xefbe4786, 0x0fc19dc6, 0x240ca1cc,
        0x2de92c6f, 0x4a7484aa, 0x5cb0a9dc, 0x76f988da, 0x983e5152, 0xa831c66d, 0xb00327c8, 0xbf597fc7, 0xc6e00bf3, 0xd5a79147,
        0x06ca6351, 0x14292967, 0x27b70a85, 0x2e1b2138, 0x4d2c6dfc, 0x53380d13, 0x650a7354, 0x766a0abb, 0x81c2c92e, 0x92722c85,
        0xa2bfe8a1, 0xa81a664b, 0xc24b8b70, 0xc76c51a3, 0xd192e819, 0xd6990624, 0xf40e3585, 0x106aa070, 0x19a4c116, 0x1e376c08,
        0x2748774c, 0x34b0bcb5, 0x391c0cb3, 0x4ed8aa4a, 0x5b9cca4f, 0x682e6ff3, 0x748f82ee, 0x78a5636f, 0x84c87814, 0x8cc70208,
        0x90befffa, 0xa4506ceb, 0xbef9a3f7, 0xc67178f2
};
static void sha256_block(uint32_t h[8], const uint8_t *b)
{
        uint32_t w[64];
        for (int i = 0; i < 16; i++)
                w[i] = be32(b + 4 * i);
        for (int i = 16; i < 64; i++) {
                uint32_t s0 = ror32(w[i - 15], 7) ^ ror32(w[i - 15], 18) ^ (w[i - 15] >> 3);
                uint32_t s1 = ror32(w[i - 2], 17) ^ ror32(w[i - 2], 19) ^ (w[i - 2] >> 10);
                w[i] = w[i - 16] + s0 + w[i - 7] + s1;
        }
        uint32_t a = h[0], bb = h[1], c = h[2], d = h[3], e = h[4], f = h[5], g = h[6], hh = h[7];
        for (int i = 0; i < 64; i++) {
                uint32_t S1 = ror32(e, 6) ^ ror32(e, 11) ^ ror32(e, 25);
                uint32_t ch = (e & f) ^ (~e & g);
                uint32_t t1 = hh + S1 + ch + K256[i] + w[i];
                uint32_t S0 = ror32(a, 2) ^ ror32(a, 13) ^ ror32(a, 22);
                uint32_t mj = (a & bb) ^ (a & c) ^ (bb & c);
                uint32_t t2 = S0 + mj;
                hh = g;
                g = f;
                f = e;
                e = d + t1;
                d = c;
                c = bb;
                bb = a;
                a = t1 + t2;
        }
        h[0] += a;
        h[1] += bb;
        h[2] += c;
        h[3] += d;
        h[4] += e;
        h[5] += f;
        h[6] += g;
        h[7] += hh;
}

// ------------------------------------------------------------------ SHA-512
static const uint64_t K512[80] = {
        0x428a2f98d728ae22ULL, 0x7137449123ef65cdULL, 0xb5c0fbcfec4d3b2fULL, 0xe9b5dba58189dbbcULL, 0x3956c25bf348b538ULL,
        0x59f111f1b605d019ULL, 0x923f82a4af194f9bULL, 0xab1c5ed5da6d8118ULL, 0xd807aa98a3030242ULL, 0x12835b0145706fbeULL,
        0x243185be4ee4b28cULL, 0x550c7dc3d5ffb4e2ULL, 0x72be5d74f27b896fULL, 0x80deb1fe3b1696b1ULL, 0x9bdc06a725c71235ULL,
        0xc19bf174cf692694ULL, 0xe49b69c19ef14ad2ULL, 0xefbe4786384f25e3ULL, 0x0fc19dc68b8cd5b5ULL, 0x240ca1cc77ac9c65ULL,
        0x2de92c6f592b0275ULL, 0x4a7484aa6ea6e483ULL, 0x5cb0a9dcbd41fbd4ULL, 0x76f988da831153b5ULL, 0x983e5152ee66dfabULL,
        0xa831c66d2db43210ULL, 0xb00327c898fb213fULL, 0xbf597fc7beef0ee4ULL, 0xc6e00bf33da88fc2ULL, 0xd5a79147930aa725ULL,
        0x06ca6351e003826fULL, 0x142929670a0e6e70ULL, 0x27b70a8546d22ffcULL, 0x2e1b21385c26c926ULL, 0x4d2c6dfc5ac42aedULL,
        0x53380d139d95b3dfULL, 0x650a73548baf63deULL, 0x766a0abb3c77b2a8ULL, 0x81c2c92e47edaee6ULL, 0x92722c851482353bULL,
        0xa2bfe8a14cf10364ULL, 0xa81a664bbc423001ULL, 0xc24b8b70d0f89791ULL, 0xc76c51a30654be30ULL, 0xd192e819d6ef5218ULL,
        0xd69906245565a910ULL, 0xf40e35855771202aULL, 0x106aa07032bbd1b8ULL, 0x19a4c116b8d2d0c8ULL, 0x1e376c085141ab53ULL,
        0x2748774cdf8eeb99ULL, 0x34b0bcb5e19b48a8ULL, 0x391c0cb3c5c95a63ULL, 0x4ed8aa4ae3418acbULL, 0x5b9cca4f7763e373ULL,
        0x682e6ff3d6b2b8a3ULL, 0x748f82ee5defb2fcULL, 0x78a5636f43172f60ULL, 0x84c87814a1f0ab72ULL, 0x8cc702081a6439ecULL,
        0x90befffa23631e28ULL, 0xa4506cebde82bde9ULL, 0xbef9a3f7b2c67915ULL, 0xc67178f2e372532bULL, 0xca273eceea26619cULL,
        0xd186b8c721c0c207ULL, 0xeada7dd6cde0eb1eULL, 0xf57d4f7fee6ed178ULL, 0x06f067aa72176fbaULL, 0x0a637dc5a2c898a6ULL,
        0x113f9804bef90daeULL, 0x1b710b35131c471bULL, 0x28db77f523047d84ULL, 0x32caab7b40c72493ULL, 0x3c9ebe0a15c9bebcULL,
        0x431d67c49c100d4cULL, 0x4cc5d4becb3e42b6ULL, 0x597f299cfc657e2aULL, 0x5fcb6fab3ad6faecULL, 0x6c44198c4a475817ULL
};
static void sha512_block(uint64_t h[8], const uint8_t *b)
{
        uint64_t w[80];
        for (int i = 0; i < 16; i++)
                w[i] = be64(b + 8 * i);
        for (int i = 16; i < 80; i++) {
                uint64_t s0 = ror64(w[i - 15], 1) ^ ror64(w[i - 15], 8) ^ (w[i - 15] >> 7);
                uint64_t s1 = ror64(w[i - 2], 19) ^ ror64(w[i - 2], 61) ^ (w[i - 2] >> 6);
                w[i] = w[i - 16] + s0 + w[i - 7] + s1;
        }
        uint64_t a = h[0], bb = h[1], c = h[2], d = h[3], e = h[4], f = h[5], g = h[6], hh = h[7];
        for (int i = 0; i < 80; i++) {
                uint64_t S1 = ror64(e, 14) ^ ror64(e, 18) ^ ror64(e, 41);
                uint64_t ch = (e & f) ^ (~e & g);
                uint64_t t1 = hh + S1 + ch + K512[i] + w[i];
                uint64_t S0 = ror64(a, 28) ^ ror64(a, 34) ^ ror64(a, 39);
                uint64_t mj = (a & bb) ^ (a & c) ^ (bb & c);
                uint64_t t2 = S0 + mj;
                hh = g;
                g = f;
                f = e;
                e = d + t1;
                d = c;
                c = bb;
                bb = a;
                a = t1 + t2;
        }
        h[0] += a;
        h[1] += bb;
        h[2] += c;
        h[3] += d;
        h[4] += e;
        h[5] += f;
        h[6] += g;
        h[7] += hh;
}

// ------------------------------------------------------------------ MD5
static const uint32_t MD5K[64] = {
        0xd76aa478, 0xe8c7b756, 0x242070db, 0xc1bdceee, 0xf57c0faf, 0x4787c62a, 0xa8304613, 0xfd469501, 0x698098d8, 0x8b44f7af,
        0xffff5bb1, 0x895cd7be, 0x6b901122, 0xfd987193, 0xa679438e, 0x49b40821, 0xf61e2562, 0xc040b340, 0x265e5a51, 0xe9b6c7aa,
        0xd62f105d, 0x02441453, 0xd8a1e681, 0xe7d3fbc8, 0x21e1cde6, 0xc33707d6, 0xf4d50d87, 0x455a14ed, 0xa9e3e905, 0xfcefa3f8,
        0x676f02d9, 0x8d2a4c8a, 0xfffa3942, 0x8771f681, 0x6d9d6122, 0xfde5380c, 0xa4beea44, 0x4bdecfa9, 0xf6bb4b60, 0xbebfbc70,
        0x289b7ec6, 0xeaa127fa, 0xd4ef3085, 0x04881d05, 0xd9d4d039, 0xe6db99e5, 0x1fa27cf8, 0xc4ac5665, 0xf4292244, 0x432aff97,
        0xab9423a7, 0xfc93a039, 0x655b59c3, 0x8f0ccc92, 0xffeff47d, 0x85845dd1, 0x6fa87e4f, 0xfe2ce6e0, 0xa3014314, 0x4e0811a1,
        0xf7537e82, 0xbd3af235, 0x2ad7d2bb, 0xeb86d391
};
static const int MD5S[64] = { 7, 12, 17, 22, 7, 12, 17, 22, 7, 12, 17, 22, 7, 12, 17, 22, 5, 9,  14, 20, 5, 9,
                              14, 20, 5,  9,  14, 20, 5, 9,  14, 20, 4, 11, 16, 23, 4, 11, 16, 23, 4, 11, 16, 23,
                              4,  11, 16, 23, 6,  10, 15, 21, 6, 10, 15, 21, 6, 10, 15, 21, 6, 10, 15, 21 };
static void md5_block(uint32_t h[4], const uint8_t *b)
{
        uint32_t m[16];
        for (int i = 0; i < 16; i++)
                m[i] = le32(b + 4 * i);
        uint32_t a = h[0], bb = h[1], c = h[2], d = h[3];
        for (int i = 0; i < 64; i++) {
                uint32_t f;
                int g;
                if (i < 16) {
                        f = (bb & c) | (~bb & d);
                        g = i;
                } else if (i < 32) {
                        f = (d & bb) | (~d & c);
                        g = (5 * i + 1) & 15;
                } else if (i < 48) {
                        f = bb ^ c ^ d;
                        g = (3 * i + 5) & 15;
                } else {
                        f = c ^ (bb | ~d);
                        g = (7 * i) & 15;
                }
                f = f + a + MD5K[i] + m[g];
                a = d;
                d = c;
                c = bb;
                bb = bb + rol32(f, MD5S[i]);
        }
        h[0] += a;
        h[1] += bb;
        h[2] += c;
        h[3] += d;
}

// ------------------------------------------------------------------ SM3
static inline uint32_t P0(uint32_t x) { return x ^ rol32(x, 9) ^ rol32(x, 17); }
static inline uint32_t P1(uint32_t x) { return x ^ rol32(x, 15) ^ rol32(x, 23); }
static void sm3_block(uint32_t v[8], const uint8_t *b)
{
        uint32_t w[68], w1[64];
        for (int i = 0; i < 16; i++)
                w[i] = be32(b + 4 * i);
        for (int i = 16; i < 68; i++)
                w[i] = P1(w[i - 16] ^ w[i - 9] ^ rol32(w[i - 3], 15)) ^ rol32(w[i - 13], 7) ^ w[i - 6];
        for (int i = 0; i < 64; i++)
                w1[i] = w[i] ^ w[i + 4];
        uint32_t A = v[0], B = v[1], C = v[2], D = v[3], E = v[4], F = v[5], G = v[6], H = v[7];
        for (int j = 0; j < 64; j++) {
                uint32_t T = j < 16 ? 0x79cc4519u : 0x7a879d8au;
                uint32_t ss1 = rol32(rol32(A, 12) + E + rol32(T, j & 31), 7);
                uint32_t ss2 = ss1 ^ rol32(A, 12);
                uint32_t ff = j < 16 ? (A ^ B ^ C) : ((A & B) | (A & C) | (B & C));
                uint32_t gg = j < 16 ? (E ^ F ^ G) : ((E & F) | (~E & G));
                uint32_t tt1 = ff + D + ss2 + w1[j];
                uint32_t tt2 = gg + H + ss1 + w[j];
                D = C;
                C = rol32(B, 9);
                B = A;
                A = tt1;
                H = G;
                G = rol32(F, 19);
                F = E;
                E = P0(tt2);
        }
        v[0] ^= A;
        v[1] ^= B;
        v[2] ^= C;
        v[3] ^= D;
        v[4] ^= E;
        v[5] ^= F;
        v[6] ^= G;
        v[7] ^= H;
}

// ------------------------------------------------------------------ RefHash
RefHash::RefHash(Algo a_) : a(a_) { reset(); }
void RefHash::reset()
{
        blen = 0;
        total = 0;
        switch (a) {
        case A_SHA1: {
                static const uint32_t iv[5] = { 0x67452301, 0xEFCDAB89, 0x98BADCFE, 0x10325476, 0xC3D2E1F0 };
                memcpy(h32, iv, sizeof iv);
                break;
        }
        case A_SHA256: {
                static const uint32_t iv[8] = { 0x6a09e667, 0xbb67ae85, 0x3c6ef372, 0xa54ff53a, 0x510e527f, 0x9b05688c, 0x1f83d9ab, 0x5be0cd19 };
                memcpy(h32, iv, sizeof iv);
                break;
        }
        case A_SHA512: {
                static const uint64_t iv[8] = { 0x6a09e667f3bcc908ULL, 0xbb67ae8584caa73bULL, 0x3c6ef372fe94f82bULL, 0xa54ff53a5f1d36f1ULL,
                                                0x510e527fade682d1ULL, 0x9b05688c2b3e6c1fULL, 0x1f83d9abfb41bd6bULL, 0x5be0cd19137e2179ULL };
                memcpy(h64, iv, sizeof iv);
                break;
        }
        case A_MD5: {
                static const uint32_t iv[4] = { 0x67452301, 0xefcdab89, 0x98badcfe, 0x10325476 };
                memcpy(h32, iv, sizeof iv);
                break;
        }
        case A_SM3: {
                static const uint32_t iv[8] = { 0x7380166f, 0x4914b2b9, 0x172442d7, 0xda8a0600, 0xa96f30bc, 0x163138aa, 0xe38dee4d, 0xb0fb0e4e };
                memcpy(h32, iv, sizeof iv);
                break;
        }
        default: break;
        }
}
void RefHash::compress(const uint8_t *blk)
{
        switch (a) {
        case A_SHA1: sha1_block(h32, blk); break;
        case A_SHA256: sha256_block(h32, blk); break;
        case A_SHA512: sha512_block(h64, blk); break;
        case A_MD5: md5_block(h32, blk); break;
        case A_SM3: sm3_block(h32, blk); break;
        default: break;
        }
}
void RefHash::update(const void *p_, size_t n)
{
        const uint8_t *p = (const uint8_t *) p_;
        size_t B = block();
        total += n;
        if (blen) {
                size_t k = B - blen;
                if (k > n)
                        k = n;
                memcpy(buf + blen, p, k);
                blen += k;
                p += k;
                n -= k;
                if (blen == B) {
                        compress(buf);
                        blen = 0;
                }
        }
        while (n >= B) {
                compress(p);
                p += B;
                n -= B;
        }
        if (n) {
                memcpy(buf, p, n);
                blen = n;
        }
}
size_t RefHash::digest_len() const
{
        switch (a) {
        case A_SHA1: return 20;
        case A_SHA256: return 32;
        case A_SHA512: return 64;
        case A_MD5: return 16;
        case A_SM3: return 32;
        default: return 0;
        }
}
std::vector<uint8_t> RefHash::digest_bytes() const
{
        RefHash c = *this;
        size_t B = c.block();
        size_t lenfield = (a == A_SHA512) ? 16 : 8;
        uint8_t pad[256];
        memset(pad, 0, sizeof pad);
        size_t i = c.blen;
        memcpy(pad, c.buf, i);
        pad[i] = 0x80;
        size_t tot = (i + 1 + lenfield <= B) ? B : 2 * B;
        unsigned __int128 bits = c.total * 8;
        if (a == A_MD5) {
                uint64_t b64 = (uint64_t) bits;
                for (int k = 0; k < 8; k++)
                        pad[tot - 8 + k] = (uint8_t) (b64 >> (8 * k));
        } else if (a == A_SHA512) {
                put_be64(pad + tot - 16, (uint64_t) (bits >> 64));
                put_be64(pad + tot - 8, (uint64_t) bits);
        } else {
                put_be64(pad + tot - 8, (uint64_t) bits);
        }
        c.compress(pad);
        if (tot == 2 * B)
                c.compress(pad + B);
        std::vector<uint8_t> out(digest_len());
        switch (a) {
        case A_SHA1:
                for (int k = 0; k < 5; k++)
                        put_be32(&out[4 * k], c.h32[k]);
                break;
        case A_SHA256:
        case A_SM3:
                for (int k = 0; k < 8; k++)
                        put_be32(&out[4 * k], c.h32[k]);
                break;
        case A_SHA512:
                for (int k = 0; k < 8; k++)
                        put_be64(&out[8 * k], c.h64[k]);
                break;
        case A_MD5:
                for (int k = 0; k < 4; k++)
                        put_le32(&out[4 * k], c.h32[k]);
                break;
        default: break;
        }
        return out;
}

std::vector<uint8_t> ctx_digest_image(Algo a, const std::vector<uint8_t> &d)
{
        std::vector<uint8_t> o(d.size());
        switch (a) {
        case A_SHA1:
        case A_SHA256:
                for (size_t i = 0; i < d.size(); i += 4) {
                        o[i] = d[i + 3];
                        o[i + 1] = d[i + 2];
                        o[i + 2] = d[i + 1];
                        o[i + 3] = d[i];
                }
                break;
        case A_SHA512:
                for (size_t i = 0; i < d.size(); i += 8)
                        for (int k = 0; k < 8; k++)
                                o[i + k] = d[i + 7 - k];
                break;
        case A_MD5:
        case A_SM3: o = d; break;
        default: break;
        }
        return o;
}

// ------------------------------------------------------------------ multi-hash
std::vector<uint8_t> ref_mh(bool sha256, const uint8_t *data, size_t n)
{
        const int NSEG = 16;
        const size_t BLK = 1024; // 16 segments x 64 bytes
        // SHA-style padding of the whole stream to a multiple of 1024 bytes
        size_t rem = n % BLK;
        size_t padded = n - rem + ((rem + 1 + 8 <= BLK) ? BLK : 2 * BLK);
        std::vector<uint8_t> s(padded, 0);
        if (n)
                memcpy(s.data(), data, n);
        s[n] = 0x80;
        put_be64(&s[padded - 8], (uint64_t) n * 8);
        // deal 32-bit words round-robin to 16 segments; hash each segment stream with the bare
        // compression function
        RefHash seg[NSEG] = { RefHash(sha256 ? A_SHA256 : A_SHA1), RefHash(sha256 ? A_SHA256 : A_SHA1), RefHash(sha256 ? A_SHA256 : A_SHA1),
                              RefHash(sha256 ? A_SHA256 : A_SHA1), RefHash(sha256 ? A_SHA256 : A_SHA1), RefHash(sha256 ? A_SHA256 : A_SHA1),
                              RefHash(sha256 ? A_SHA256 : A_SHA1), RefHash(sha256 ? A_SHA256 : A_SHA1), RefHash(sha256 ? A_SHA256 : A_SHA1),
                              RefHash(sha256 ? A_SHA256 : A_SHA1), RefHash(sha256 ? A_SHA256 : A_SHA1), RefHash(sha256 ? A_SHA256 : A_SHA1),
                              RefHash(sha256 ? A_SHA256 : A_SHA1), RefHash(sha256 ? A_SHA256 : A_SHA1), RefHash(sha256 ? A_SHA256 : A_SHA1),
                              RefHash(sha256 ? A_SHA256 : A_SHA1) };
        for (size_t off = 0; off < padded; off += BLK) {
                for (int g = 0; g < NSEG; g++) {
                        uint8_t blk[64];
                        for (int wd = 0; wd < 16; wd++)
                                memcpy(blk + 4 * wd, &s[off + (size_t) (wd * NSEG + g) * 4], 4);
                        seg[g].compress(blk);
                }
        }
        // the 16 segment digests, in the interim layout digests[word][segment] of 32-bit words as they
        // lie in memory (little-endian), form the message of the final standard hash
        int nw = sha256 ? 8 : 5;
        std::vector<uint8_t> m((size_t) nw * NSEG * 4);
        for (int wd = 0; wd < nw; wd++)
                for (int g = 0; g < NSEG; g++)
                        put_le32(&m[(size_t) (wd * NSEG + g) * 4], seg[g].h32[wd]);
        RefHash fin(sha256 ? A_SHA256 : A_SHA1);
        fin.update(m.data(), m.size());
        std::vector<uint8_t> d = fin.digest_bytes();
        return ctx_digest_image(sha256 ? A_SHA256 : A_SHA1, d); // library writes native uint32 words
}

// ------------------------------------------------------------------ murmur3 x64_128
static inline uint64_t fmix64(uint64_t k)
{
        k ^= k >> 33;
        k *= 0xff51afd7ed558ccdULL;
        k ^= k >> 33;
        k *= 0xc4ceb9fe1a85ec53ULL;
        k ^= k >> 33;
        return k;
}
void ref_murmur3_x64_128(const uint8_t *data, size_t len, uint64_t seed, uint8_t out[16])
{
        const size_t nblocks = len / 16;
        uint64_t h1 = seed, h2 = seed;
        const uint64_t c1 = 0x87c37b91114253d5ULL, c2 = 0x4cf5ad432745937fULL;
        for (size_t i = 0; i < nblocks; i++) {
                uint64_t k1, k2;
                memcpy(&k1, data + 16 * i, 8);
                memcpy(&k2, data + 16 * i + 8, 8);
                k1 *= c1;
                k1 = rol64(k1, 31);
                k1 *= c2;
                h1 ^= k1;
                h1 = rol64(h1, 27);
                h1 += h2;
                h1 = h1 * 5 + 0x52dce729;
                k2 *= c2;
                k2 = rol64(k2, 33);
                k2 *= c1;
                h2 ^= k2;
                h2 = rol64(h2, 31);
                h2 += h1;
                h2 = h2 * 5 + 0x38495ab5;
        }
        const uint8_t *tail = data + nblocks * 16;
        uint64_t k1 = 0, k2 = 0;
        switch (len & 15) {
        case 15: k2 ^= ((uint64_t) tail[14]) << 48; // fallthrough
        case 14: k2 ^= ((uint64_t) tail[13]) << 40; // fallthrough
        case 13: k2 ^= ((uint64_t) tail[12]) << 32; // fallthrough
        case 12: k2 ^= ((uint64_t) tail[11]) << 24; // fallthrough
        case 11: k2 ^= ((uint64_t) tail[10]) << 16; // fallthrough
        case 10: k2 ^= ((uint64_t) tail[9]) << 8;   // fallthrough
        case 9:
                k2 ^= ((uint64_t) tail[8]) << 0;
                k2 *= c2;
                k2 = rol64(k2, 33);
                k2 *= c1;
                h2 ^= k2; // fallthrough
        case 8: k1 ^= ((uint64_t) tail[7]) << 56; // fallthrough
        case 7: k1 ^= ((uint64_t) tail[6]) << 48; // fallthrough
        case 6: k1 ^= ((uint64_t) tail[5]) << 40; // fallthrough
        case 5: k1 ^= ((uint64_t) tail[4]) << 32; // fallthrough
        case 4: k1 ^= ((uint64_t) tail[3]) << 24; // fallthrough
        case 3: k1 ^= ((uint64_t) tail[2]) << 16; // fallthrough
        case 2: k1 ^= ((uint64_t) tail[1]) << 8;  // fallthrough
        case 1:
                k1 ^= ((uint64_t) tail[0]) << 0;
                k1 *= c1;
                k1 = rol64(k1, 31);
                k1 *= c2;
                h1 ^= k1;
        }
        h1 ^= (uint64_t) len;
        h2 ^= (uint64_t) len;
        h1 += h2;
        h2 += h1;
        h1 = fmix64(h1);
        h2 = fmix64(h2);
        h1 += h2;
        h2 += h1;
        memcpy(out, &h1, 8);
        memcpy(out + 8, &h2, 8);
}

// ------------------------------------------------------------------ rolling hash
uint64_t RefRolling::hash() const
{
        uint64_t h = 0;
        for (uint32_t j = 0; j < w; j++)
                h ^= rol64(golden_rolling_table[window[j]], (int) (w - 1 - j));
        return h;
}
int RefRolling::run(const uint8_t *buf, uint32_t max_len, uint32_t mask, uint32_t trigger, uint32_t *offset)
{
        for (uint32_t i = 0; i < max_len; i++) {
                window.erase(window.begin());
                window.push_back(buf[i]);
                if ((hash() & mask) == trigger) {
                        *offset = i + 1;
                        return 1;
                }
        }
        *offset = max_len;
        return 0;
}
uint32_t ref_mask_gen(uint32_t mean, uint32_t shift)
{
        uint64_t m = mean < 2 ? 2 : mean;
        uint32_t p = 1;
        while ((uint64_t) p * 2 <= m)
                p *= 2;
        uint32_t x = p - 1;
        shift &= 31;
        return shift ? (x << shift) | (x >> (32 - shift)) : x;
}

// ------------------------------------------------------------------ self-test
static std::string hexs(const std::vector<uint8_t> &v)
{
        static const char *d = "0123456789abcdef";
        std::string s;
        for (uint8_t b : v) {
                s += d[b >> 4];
                s += d[b & 15];
        }
        return s;
}
static std::string h(Algo a, const std::string &msg, size_t rep = 1)
{
        RefHash r(a);
        for (size_t i = 0; i < rep; i++)
                r.update(msg.data(), msg.size());
        return hexs(r.digest_bytes());
}
std::string models_selftest()
{
        struct {
                Algo a;
                const char *msg;
                size_t rep;
                const char *want;
        } v[] = {
                { A_SHA1, "abc", 1, "a9993e364706816aba3e25717850c26c9cd0d89d" },
                { A_SHA1, "", 1, "da39a3ee5e6b4b0d3255bfef95601890afd80709" },
                { A_SHA1, "abcdbcdecdefdefgefghfghighijhijkijkljklmklmnlmnomnopnopq", 1, "84983e441c3bd26ebaae4aa1f95129e5e54670f1" },
                { A_SHA1, "a", 1000000, "34aa973cd4c4daa4f61eeb2bdbad27316534016f" },
                { A_SHA256, "abc", 1, "ba7816bf8f01cfea414140de5dae2223b00361a396177a9cb410ff61f20015ad" },
                { A_SHA256, "", 1, "e3b0c44298fc1c149afbf4c8996fb92427ae41e4649b934ca495991b7852b855" },
                { A_SHA256, "abcdbcdecdefdefgefghfghighijhijkijkljklmklmnlmnomnopnopq", 1,
                  "248d6a61d20638b8e5c026930c3e6039a33ce45964ff2167f6ecedd419db06c1" },
                { A_SHA256, "a", 1000000, "cdc76e5c9914fb9281a1c7e284d73e67f1809a48a497200e046d39ccc7112cd0" },
                { A_SHA512, "abc", 1,
                  "ddaf35a193617abacc417349ae20413112e6fa4e89a97ea20a9eeee64b55d39a2192992a274fc1a836ba3c23a3feebbd454d4423643ce80e2a9ac94fa54ca49f" },
                { A_SHA512, "", 1,
                  "cf83e1357eefb8bdf1542850d66d8007d620e4050b5715dc83f4a921d36ce9ce47d0d13c5d85f2b0ff8318d2877eec2f63b931bd47417a81a538327af927da3e" },
                { A_SHA512,
                  "abcdefghbcdefghicdefghijdefghijkefghijklfghijklmghijklmnhijklmnoijklmnopjklmnopqklmnopqrlmnopqrsmnopqrstnopqrstu", 1,
                  "8e959b75dae313da8cf4f72814fc143f8f7779c6eb9f7fa17299aeadb6889018501d289e4900f7e4331b99dec4b5433ac7d329eeb6dd26545e96e55b874be909" },
                { A_MD5, "", 1, "d41d8cd98f00b204e9800998ecf8427e" },
                { A_MD5, "abc", 1, "900150983cd24fb0d6963f7d28e17f72" },
                { A_MD5, "12345678901234567890123456789012345678901234567890123456789012345678901234567890", 1,
                  "57edf4a22be3c955ac49da2e2107b67a" },
                { A_SM3, "abc", 1, "66c7f0f462eeedd9d1f2d46bdc10e4e24167c4875cf2f7a2297da02b8f4ba8e0" },
                { A_SM3, "abcdabcdabcdabcdabcdabcdabcdabcdabcdabcdabcdabcdabcdabcdabcdabcd", 1,
                  "debe9ff92275b8a138604889c18e5a4d6fdb70e5387e5765293dcba39c0c5732" },
        };
        for (auto &t : v) {
                std::string got = h(t.a, t.msg, t.rep);
                if (got != t.want)
                        return std::string("reference ") + algo_name[t.a] + " failed on '" + std::string(t.msg).substr(0, 10) + "': " + got;
        }
        // murmur3 x64_128 known answers (reference implementation, seed 0 / 1 / 0x9747b28c)
        {
                uint8_t o[16];
                ref_murmur3_x64_128((const uint8_t *) "", 0, 0, o);
                for (int i = 0; i < 16; i++)
                        if (o[i])
                                return "murmur3('' ,0) != 0";
                ref_murmur3_x64_128((const uint8_t *) "The quick brown fox jumps over the lazy dog", 43, 0, o);
                uint64_t h1, h2;
                memcpy(&h1, o, 8);
                memcpy(&h2, o + 8, 8);
                if (h1 != 0xe34bbc7bbc071b6cULL || h2 != 0x7a433ca9c49a9347ULL)
                        return "murmur3 fox vector mismatch";
                ref_murmur3_x64_128((const uint8_t *) "hello", 5, 0, o);
                memcpy(&h1, o, 8);
                memcpy(&h2, o + 8, 8);
                if (h1 != 0xcbd8a7b341bd9b02ULL || h2 != 0x5b1e906a48ae1d19ULL)
                        return "murmur3 hello vector mismatch";
        }
        // rolling: incremental identity on a small stream
        {
                RefRolling r;
                r.init(5);
                uint8_t init[5] = { 1, 2, 3, 4, 5 };
                r.reset(init);
                uint64_t hh = 0;
                for (int i = 0; i < 5; i++)
                        hh = rol64(hh, 1) ^ golden_rolling_table[init[i]];
                if (hh != r.hash())
                        return "rolling model: reset identity";
                uint8_t nb = 77;
                uint64_t inc = rol64(hh, 1) ^ golden_rolling_table[nb] ^ rol64(golden_rolling_table[init[0]], 5);
                uint32_t off;
                r.run(&nb, 1, 0, 1, &off);
                if (inc != r.hash())
                        return "rolling model: incremental identity";
        }
        if (ref_mask_gen(1024, 0) != 1023 || ref_mask_gen(0, 0) != 1 || ref_mask_gen(1500, 4) != (1023u << 4))
                return "mask_gen model";
        return "";
}
