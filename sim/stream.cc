// stream.cc — StreamSim: streaming objects (mh_sha1, mh_sha256, mh_sha1_murmur3_x64_128,
// rolling hash, AES-GCM init/update/finalize) fed by a fragmenting transport; several stream
// clients interleaved in one run. Decides C05, C10, C09, C07; feeds C08/C14/C19/C20 monitors.
#include "sim.h"
#include "models.h"
#include <algorithm>
#include <unordered_set>
#include <sys/mman.h>
#include <unistd.h>

extern "C" {
#include "mh_sha1.h"
#include "mh_sha256.h"
#include "mh_sha1_murmur3_x64_128.h"
#include "rolling_hashx.h"
#include "aes_gcm.h"
#include "aes_keyexp.h"
#include "isal_crypto_api.h"
}

namespace {

enum Kind { K_MH1 = 0, K_MH256 = 1, K_MUR = 2, K_ROLL = 3, K_GCM = 4, K_N = 5 };
static const char *kind_name[K_N] = { "mh_sha1", "mh_sha256", "mh_sha1_murmur3_x64_128", "rolling_hash2", "aes_gcm" };
enum { OP_DELIVER = 1, OP_FINALIZE = 2, OP_RESTART = 3, OP_MIGRATE = 4 };

static const char *mh_fams[5] = { "base", "sse", "avx", "avx2", "avx512" };
static const char *roll_impls[3] = { "base", "00", "04" };
static const char *gcm_fams[4] = { "sse", "avx_gen2", "avx_gen4", "vaes_avx512" };

struct Syms {
        // mh
        void *mh_init[3], *mh_update[3][5], *mh_finalize[3][5]; // [kind][family]
        void *mh_isal_init[3], *mh_isal_update[3], *mh_isal_finalize[3];
        void *mh_pubbase_update[3], *mh_pubbase_finalize[3]; // deprecated public base-family entry points
        void **mh_disp_update[3], **mh_disp_finalize[3];
        // rolling
        void *roll_init, *roll_reset, *roll_run, *roll_isal_init, *roll_isal_reset, *roll_isal_run, *roll_maskgen, *roll_leg_run, *roll_leg_maskgen;
        void *roll_impl[3];
        void **roll_disp;
        // gcm [keysize 0/1][family]
        void *keyexp[2][2]; // sse, avx
        void *precomp[2][4], *ginit[2][4], *enc_upd[2][4], *dec_upd[2][4], *enc_upd_nt[2][4], *dec_upd_nt[2][4], *enc_fin[2][4], *dec_fin[2][4],
                *enc[2][4], *dec[2][4], *enc_nt[2][4], *dec_nt[2][4];
        void *isal_pre[2], *isal_init[2], *isal_enc_upd[2], *isal_dec_upd[2], *isal_enc_upd_nt[2], *isal_dec_upd_nt[2], *isal_enc_fin[2],
                *isal_dec_fin[2], *isal_enc[2], *isal_dec[2];
        void **d_keyexp[2], **d_precomp[2], **d_init[2], **d_enc_upd[2], **d_dec_upd[2], **d_enc_upd_nt[2], **d_dec_upd_nt[2], **d_enc_fin[2],
                **d_dec_fin[2], **d_enc[2], **d_dec[2];
};
static Syms S;
static bool g_syms_ok = false;

static void load_syms()
{
        if (g_syms_ok)
                return;
        g_syms_ok = true;
        static const char *pre[3] = { "mh_sha1", "mh_sha256", "mh_sha1_murmur3_x64_128" };
        for (int k = 0; k < 3; k++) {
                S.mh_init[k] = libsym(strfmt("_%s_init", pre[k]).c_str());
                for (int f = 0; f < 5; f++) {
                        S.mh_update[k][f] = libsym(strfmt("_%s_update_%s", pre[k], mh_fams[f]).c_str());
                        S.mh_finalize[k][f] = libsym(strfmt("_%s_finalize_%s", pre[k], mh_fams[f]).c_str());
                }
                S.mh_pubbase_update[k] = libsym(strfmt("%s_update_base", pre[k]).c_str(), false);
                S.mh_pubbase_finalize[k] = libsym(strfmt("%s_finalize_base", pre[k]).c_str(), false);
                S.mh_isal_init[k] = libsym(strfmt("isal_%s_init", pre[k]).c_str());
                S.mh_isal_update[k] = libsym(strfmt("isal_%s_update", pre[k]).c_str());
                S.mh_isal_finalize[k] = libsym(strfmt("isal_%s_finalize", pre[k]).c_str());
                S.mh_disp_update[k] = (void **) libsym(strfmt("_%s_update_dispatched", pre[k]).c_str());
                S.mh_disp_finalize[k] = (void **) libsym(strfmt("_%s_finalize_dispatched", pre[k]).c_str());
        }
        S.roll_init = libsym("_rolling_hash2_init");
        S.roll_reset = libsym("_rolling_hash2_reset");
        S.roll_run = libsym("_rolling_hash2_run");
        S.roll_isal_init = libsym("isal_rolling_hash2_init");
        S.roll_isal_reset = libsym("isal_rolling_hash2_reset");
        S.roll_isal_run = libsym("isal_rolling_hash2_run");
        S.roll_maskgen = libsym("isal_rolling_hashx_mask_gen");
        S.roll_leg_run = libsym("rolling_hash2_run", false);
        S.roll_leg_maskgen = libsym("rolling_hashx_mask_gen", false);
        for (int i = 0; i < 3; i++)
                S.roll_impl[i] = libsym(strfmt("_rolling_hash2_run_until_%s", roll_impls[i]).c_str());
        S.roll_disp = (void **) libsym("_rolling_hash2_run_until_dispatched");
        for (int ks = 0; ks < 2; ks++) {
                int bits = ks ? 256 : 128;
                S.keyexp[ks][0] = libsym(strfmt("_aes_keyexp_%d_sse", bits).c_str());
                S.keyexp[ks][1] = libsym(strfmt("_aes_keyexp_%d_avx", bits).c_str());
                for (int f = 0; f < 4; f++) {
                        const char *fm = gcm_fams[f];
                        S.precomp[ks][f] = libsym(strfmt("_aes_gcm_precomp_%d_%s", bits, fm).c_str());
                        S.ginit[ks][f] = libsym(strfmt("_aes_gcm_init_%d_%s", bits, fm).c_str());
                        S.enc_upd[ks][f] = libsym(strfmt("_aes_gcm_enc_%d_update_%s", bits, fm).c_str());
                        S.dec_upd[ks][f] = libsym(strfmt("_aes_gcm_dec_%d_update_%s", bits, fm).c_str());
                        S.enc_upd_nt[ks][f] = libsym(strfmt("_aes_gcm_enc_%d_update_%s_nt", bits, fm).c_str());
                        S.dec_upd_nt[ks][f] = libsym(strfmt("_aes_gcm_dec_%d_update_%s_nt", bits, fm).c_str());
                        S.enc_fin[ks][f] = libsym(strfmt("_aes_gcm_enc_%d_finalize_%s", bits, fm).c_str());
                        S.dec_fin[ks][f] = libsym(strfmt("_aes_gcm_dec_%d_finalize_%s", bits, fm).c_str());
                        S.enc[ks][f] = libsym(strfmt("_aes_gcm_enc_%d_%s", bits, fm).c_str());
                        S.dec[ks][f] = libsym(strfmt("_aes_gcm_dec_%d_%s", bits, fm).c_str());
                        S.enc_nt[ks][f] = libsym(strfmt("_aes_gcm_enc_%d_%s_nt", bits, fm).c_str());
                        S.dec_nt[ks][f] = libsym(strfmt("_aes_gcm_dec_%d_%s_nt", bits, fm).c_str());
                }
                S.isal_pre[ks] = libsym(strfmt("isal_aes_gcm_pre_%d", bits).c_str());
                S.isal_init[ks] = libsym(strfmt("isal_aes_gcm_init_%d", bits).c_str());
                S.isal_enc_upd[ks] = libsym(strfmt("isal_aes_gcm_enc_%d_update", bits).c_str());
                S.isal_dec_upd[ks] = libsym(strfmt("isal_aes_gcm_dec_%d_update", bits).c_str());
                S.isal_enc_upd_nt[ks] = libsym(strfmt("isal_aes_gcm_enc_%d_update_nt", bits).c_str());
                S.isal_dec_upd_nt[ks] = libsym(strfmt("isal_aes_gcm_dec_%d_update_nt", bits).c_str());
                S.isal_enc_fin[ks] = libsym(strfmt("isal_aes_gcm_enc_%d_finalize", bits).c_str());
                S.isal_dec_fin[ks] = libsym(strfmt("isal_aes_gcm_dec_%d_finalize", bits).c_str());
                S.isal_enc[ks] = libsym(strfmt("isal_aes_gcm_enc_%d", bits).c_str());
                S.isal_dec[ks] = libsym(strfmt("isal_aes_gcm_dec_%d", bits).c_str());
                S.d_keyexp[ks] = (void **) libsym(strfmt("_aes_keyexp_%d_dispatched", bits).c_str());
                S.d_precomp[ks] = (void **) libsym(strfmt("_aes_gcm_precomp_%d_dispatched", bits).c_str());
                S.d_init[ks] = (void **) libsym(strfmt("_aes_gcm_init_%d_dispatched", bits).c_str());
                S.d_enc_upd[ks] = (void **) libsym(strfmt("_aes_gcm_enc_%d_update_dispatched", bits).c_str());
                S.d_dec_upd[ks] = (void **) libsym(strfmt("_aes_gcm_dec_%d_update_dispatched", bits).c_str());
                S.d_enc_upd_nt[ks] = (void **) libsym(strfmt("_aes_gcm_enc_%d_update_nt_dispatched", bits).c_str());
                S.d_dec_upd_nt[ks] = (void **) libsym(strfmt("_aes_gcm_dec_%d_update_nt_dispatched", bits).c_str());
                S.d_enc_fin[ks] = (void **) libsym(strfmt("_aes_gcm_enc_%d_finalize_dispatched", bits).c_str());
                S.d_dec_fin[ks] = (void **) libsym(strfmt("_aes_gcm_dec_%d_finalize_dispatched", bits).c_str());
                S.d_enc[ks] = (void **) libsym(strfmt("_aes_gcm_enc_%d_dispatched", bits).c_str());
                S.d_dec[ks] = (void **) libsym(strfmt("_aes_gcm_dec_%d_dispatched", bits).c_str());
        }
}

// slot save/restore for the duration of one library call through the public API
struct SlotGuard {
        std::vector<std::pair<void **, void *>> saved;
        void set(void **slot, void *v)
        {
                saved.emplace_back(slot, *slot);
                *slot = v;
        }
        ~SlotGuard()
        {
                for (size_t i = saved.size(); i-- > 0;)
                        *saved[i].first = saved[i].second;
        }
};

// huge aliased window for max_len >= 2^31 (rolling hash, mh update)
static uint8_t *g_hwin = nullptr, *g_hpat = nullptr;
static const size_t HPER = 2u << 20;
static const uint64_t HSIZE = (4ull << 30) + 16 * HPER; // covers a single call of 2^32 + 8 MiB bytes
static void build_hwin()
{
        if (g_hwin)
                return;
        int fd = memfd_create("isalsim-hwin", 0);
        if (fd < 0 || ftruncate(fd, HPER) != 0) {
                perror("memfd");
                exit(2);
        }
        g_hpat = (uint8_t *) mmap(nullptr, HPER, PROT_READ | PROT_WRITE, MAP_SHARED, fd, 0);
        Rng pr(0x5eed0f0f0ULL, "hwin");
        pr.fill(g_hpat, HPER);
        uint8_t *base = (uint8_t *) mmap(nullptr, HSIZE + 2 * 4096, PROT_NONE, MAP_PRIVATE | MAP_ANONYMOUS | MAP_NORESERVE, -1, 0);
        g_hwin = base + 4096;
        for (uint64_t off = 0; off < HSIZE; off += HPER)
                if (mmap(g_hwin + off, HPER, PROT_READ, MAP_SHARED | MAP_FIXED, fd, 0) == MAP_FAILED) {
                        perror("mmap alias");
                        exit(2);
                }
        close(fd);
}

// writable twin of the window for the output of >= 2^32-byte GCM calls: every 2 MiB of it is the same memory, so after a call the
// period holds the last bytes written at each offset mod 2 MiB (a pure function of the complete output)
static uint8_t *g_howin = nullptr, *g_hopat = nullptr;
static void build_howin()
{
        if (g_howin)
                return;
        int fd = memfd_create("isalsim-howin", 0);
        if (fd < 0 || ftruncate(fd, HPER) != 0) {
                perror("memfd");
                exit(2);
        }
        g_hopat = (uint8_t *) mmap(nullptr, HPER, PROT_READ | PROT_WRITE, MAP_SHARED, fd, 0);
        uint8_t *base = (uint8_t *) mmap(nullptr, HSIZE + 2 * 4096, PROT_NONE, MAP_PRIVATE | MAP_ANONYMOUS | MAP_NORESERVE, -1, 0);
        g_howin = base + 4096;
        for (uint64_t off = 0; off < HSIZE; off += HPER)
                if (mmap(g_howin + off, HPER, PROT_READ | PROT_WRITE, MAP_SHARED | MAP_FIXED, fd, 0) == MAP_FAILED) {
                        perror("mmap alias (out)");
                        exit(2);
                }
        close(fd);
}

struct LegacyScope {
        Env &e;
        bool saved;
        LegacyScope(Env &e_, bool on) : e(e_), saved(e_.legacy_api) { e.legacy_api = on; }
        ~LegacyScope() { e.legacy_api = saved; }
};

#include "golden_rolling_table.h"
static inline uint64_t rol64z(uint64_t v, int s)
{
        s &= 63;
        return s ? (v << s) | (v >> (64 - s)) : v;
}
// A w-byte window whose 64-bit rolling hash is exactly 0 (the hash is linear over GF(2) in the choice between two candidate bytes per
// position: random candidate pairs until 0 lies in the span, about 2^16 attempts for w = 48). Deterministic, computed once per process.
static const std::vector<uint8_t> &zero_hash_window()
{
        static std::vector<uint8_t> win;
        if (!win.empty())
                return win;
        const uint32_t w = 48;
        Rng g(0x7a65726f77696eULL, "zerowin");
        for (int attempt = 0; attempt < (1 << 22); attempt++) {
                uint8_t a[48], b[48];
                uint64_t base = 0, bv[64] = { 0 }, bc[64] = { 0 };
                for (uint32_t j = 0; j < w; j++) {
                        a[j] = (uint8_t) g.below(256);
                        do
                                b[j] = (uint8_t) g.below(256);
                        while (b[j] == a[j]);
                        base ^= rol64z(golden_rolling_table[a[j]], (int) (w - 1 - j));
                        uint64_t v = rol64z(golden_rolling_table[a[j]] ^ golden_rolling_table[b[j]], (int) (w - 1 - j)), cm = 1ull << j;
                        while (v) {
                                int hb = 63 - __builtin_clzll(v);
                                if (!bv[hb]) {
                                        bv[hb] = v;
                                        bc[hb] = cm;
                                        break;
                                }
                                v ^= bv[hb];
                                cm ^= bc[hb];
                        }
                }
                uint64_t cm = 0;
                while (base) {
                        int hb = 63 - __builtin_clzll(base);
                        if (!bv[hb])
                                break;
                        base ^= bv[hb];
                        cm ^= bc[hb];
                }
                if (base)
                        continue;
                win.resize(w);
                for (uint32_t j = 0; j < w; j++)
                        win[j] = ((cm >> j) & 1) ? b[j] : a[j];
                RefRolling m;
                m.init(w);
                m.reset(win.data());
                if (m.hash() != 0) {
                        fprintf(stderr, "HARNESS: zero-hash window solver is wrong\n");
                        exit(2);
                }
                return win;
        }
        fprintf(stderr, "HARNESS: no zero-hash window found\n");
        exit(2);
}

struct SClient {
        int kind = 0, fam = 0, api = 0; // api 0 family symbols, 1 isal_
        std::vector<uint8_t> stream;
        size_t pos = 0;
        int epoch = 0;
        bool finalized = false;
        int fragmode = 0;
        size_t fragA = 0, fragB = 0, nfrag = 0;
        // objects
        uint8_t *ctx = nullptr;
        // mh/mur
        uint64_t mur_seed = 0;
        // rolling
        uint32_t w = 0, mask = 0, trigger = 0;
        uint64_t init_seed = 0;
        RefRolling model;
        uint64_t model_hash = 0;
        std::vector<uint64_t> boundaries, model_boundaries;
        bool huge = false;
        bool noreset = false; // rolling: run straight after init (no model, C20 and the monitors only)
        int zerowin = 0;      // rolling: 1 = the reset window hashes to 0; 2 = a window that hashes to 0 ends at zero_at, where a call is cut
        size_t zero_at = 0;
        // gcm
        int ks = 0;
        bool dec = false, inplace = false, nt = false;
        uint8_t *key_data = nullptr;
        uint8_t *iv = nullptr, *aad = nullptr;
        size_t aad_len = 0;
        int tag_len = 16;
        std::vector<uint8_t> key, out_stream, ref_out, ref_tag, in_stream;
        int share_with = -1;
        int keyexp_fam = 0;
        int pre_fam = 0; // family whose precompute filled the key data (may differ from fam among sse / avx_gen2 / avx_gen4)
        std::vector<uint8_t> dec_sched; // decryption schedule (needles)
};

struct StreamSim : Sim {
        const char *name() const override { return "stream"; }
        void process_init() override { load_syms(); }
        std::vector<std::string> real_components() const override
        {
                return { "mh_sha1 / mh_sha256 / mh_sha1_murmur3_x64_128 init, update, finalize, block and tail functions of all five families",
                         "rolling_hash2 init/reset/run and the three scan implementations (base, _00, _04)",
                         "AES-GCM key expansion, precompute, init, update, finalize, one-shot (sse, avx_gen2, avx_gen4, vaes_avx512; regular and _nt)",
                         "isal_* wrappers of the above" };
        }
        std::vector<std::string> stub_components() const override
        {
                return { "transport that fragments each stream and re-buffers every fragment", "scheduler choosing whose fragment is delivered next",
                         "memory map (guard-paged arena)", "register file / dead stack at call entry",
                         "dispatch binding (slots set to the family under test; resolver exercised by C12)" };
        }

        // ------------------------------------------------------------ generation
        static size_t stream_len(Rng &g, int kind, bool thorough)
        {
                if (kind == K_GCM) {
                        switch (g.below(8)) {
                        case 0: return 0;
                        case 1: return 1 + g.below(15);
                        case 2:
                        case 3:
                        case 4: return g.below(48 * 16 + 18);
                        case 5: return 16 * g.below(130);
                        case 6: return g.chance(1, 2) ? g.below(16384) : 4096 * (1 + g.below(3)) - 600 + g.below(1200); // around the 8-bit counter wrap
                        default: return g.chance(1, 20) ? g.below(65536) : g.below(4096);
                        }
                }
                if (kind == K_ROLL) {
                        switch (g.below(6)) {
                        case 0: return g.below(4 * 48);
                        case 1: return g.below(2048);
                        case 2: return g.below(16384);
                        case 3: return 0;
                        default: return g.chance(1, 60) ? g.below(65536) : g.below(8192);
                        }
                }
                switch (g.below(12)) {
                case 0: return 0;
                case 1: return 1;
                case 2: return 1023;
                case 3: return 1024;
                case 4: return 1025;
                case 5: return 1024 * (1 + g.below(8)) - 1 + g.below(3);
                case 6: return 1016 + g.below(8) + 1024 * g.below(4); // two-block padding tail
                case 7: return g.below(65536);
                case 8: return g.chance(1, thorough ? 10 : 40) ? g.below(1 << 20) : g.below(4096);
                default: return g.below(8192);
                }
        }

        Plan generate(uint64_t seed, const std::string &focus_in, bool thorough_in, uint64_t run_index_in) override
        {
                // focus "HUGE" (sim streamhuge: the quota of huge cases used by the cross-cutting monitors): rotate over the huge cases of
                // C05 (10), C10 (5), C09 (6) and C07 (8) by run index
                std::string focus = focus_in;
                bool thorough = thorough_in;
                uint64_t run_index = run_index_in;
                if (focus_in == "HUGEGCM") {
                        focus = "C07";
                        run_index = run_index_in % 8;
                        thorough = false;
                }
                if (focus_in == "HUGE") {
                        static const char *hf[4] = { "C05", "C10", "C09", "C07" };
                        static const uint64_t hq[4] = { 10, 5, 6, 8 };
                        focus = hf[run_index_in % 4];
                        run_index = (run_index_in / 4 + mix64(seed, 0x40e) % 64) % hq[run_index_in % 4];
                        thorough = false;
                }
                Rng g(seed, "plan");
                Plan p;
                int nc = 1 + (int) g.below(4);
                // kind bias by focus
                int bias = -1;
                if (focus == "C05")
                        bias = g.chance(1, 2) ? K_MH1 : K_MH256;
                else if (focus == "C10")
                        bias = K_MUR;
                else if (focus == "C09")
                        bias = K_ROLL;
                else if (focus == "C07")
                        bias = K_GCM;
                else if (focus == "C14")
                        bias = K_GCM;
                p.cfg["clients"] = nc;
                bool huge_run = (focus == "C09" && (thorough ? run_index % 20000 < 9 : run_index < 6)) ||
                                (focus == "C05" && (thorough ? run_index % 20000 < 10 : run_index < 10)) ||
                                (focus == "C10" && (thorough ? run_index % 20000 < 10 : run_index < 5));
                for (int i = 0; i < nc; i++) {
                        int kind = (bias >= 0 && (i == 0 || g.chance(3, 4))) ? bias : (int) g.below(K_N);
                        if (focus == "C05" && bias >= 0 && i > 0 && g.chance(1, 2))
                                kind = g.chance(1, 2) ? K_MH1 : K_MH256;
                        std::string k = strfmt("c%d_", i);
                        p.cfg[k + "kind"] = kind;
                        p.cfg[k + "api"] = (int64_t) (g.chance(1, 2) ? 0 : g.chance(2, 3) ? 1 : 2); // family symbols / isal_ API / deprecated API
                        p.cfg[k + "len"] = (int64_t) stream_len(g, kind, thorough);
                        p.cfg[k + "place"] = (int64_t) g.below(3);
                        // swarm knob: 0 mixed fragment classes, 1 every fragment the same length, 2 two alternating lengths
                        p.cfg[k + "fragmode"] = g.chance(2, 3) ? 0 : (int64_t) (1 + g.below(2));
                        p.cfg[k + "fragA"] = (int64_t) (g.chance(1, 2) ? 1 + g.below(40) : 1 + g.below(2100));
                        p.cfg[k + "fragB"] = (int64_t) (1 + g.below(300));
                        if (kind <= K_MUR && g.chance(1, 10)) {
                                // padding-edge script: a first piece that leaves P bytes pending, a second that ends exactly on a block boundary, and a last
                                // piece of R bytes (P, R in the last 24 bytes of a block: one- and two-block padding, with a used buffer behind R)
                                uint64_t P = 1000 + g.below(24), R = 1000 + g.below(24);
                                p.cfg[k + "fragmode"] = 3;
                                p.cfg[k + "fragA"] = (int64_t) P;
                                p.cfg[k + "fragB"] = (int64_t) R;
                                p.cfg[k + "len"] = (int64_t) (1024 * (1 + g.below(3)) + R);
                        }
                        if (kind <= K_MUR)
                                p.cfg[k + "fam"] = (int64_t) g.below(5);
                        else if (kind == K_ROLL) {
                                p.cfg[k + "fam"] = (int64_t) g.below(3);
                                p.cfg[k + "w"] = 1 + (int64_t) g.below(48);
                                int nbits = g.chance(1, 2) ? 1 + (int) g.below(6) : 8 + (int) g.below(10);
                                uint32_t mask = 0;
                                for (int b = 0; b < nbits; b++)
                                        mask |= 1u << g.below(32);
                                if (g.chance(1, 4))
                                        p.cfg[k + "maskgen_mean"] = (int64_t) (1 + g.below(1 << 16)), p.cfg[k + "maskgen_shift"] = (int64_t) g.below(32);
                                p.cfg[k + "mask"] = mask;
                                p.cfg[k + "trigger"] = (int64_t) ((uint32_t) g.next() & mask);
                                if (g.chance(1, 5))
                                        p.cfg[k + "trigger"] = 0;
                                p.cfg[k + "twin"] = (i > 0 && g.chance(1, 3)) ? 1 : 0;
                                // 1 rolling client in 8 runs straight after init, without a reset (the header calls the reset window "optional"):
                                // no model for that (which window init leaves behind is the library's choice), but the result must not depend on
                                // what the state object's memory held before (C20)
                                p.cfg[k + "noreset"] = (!p.cfg[k + "twin"] && g.chance(1, 8)) ? 1 : 0;
                                // 1 rolling client in 8 meets a window whose full 64-bit hash is 0: as the reset window, or ending exactly where a call ends
                                if (!p.cfg[k + "twin"] && !p.cfg[k + "noreset"] && g.chance(1, 8)) {
                                        p.cfg[k + "zerowin"] = (int64_t) (1 + g.below(2));
                                        p.cfg[k + "w"] = 48;
                                }
                        } else {
                                p.cfg[k + "fam"] = (int64_t) g.below(4);
                                p.cfg[k + "ks"] = (int64_t) g.below(2);
                                p.cfg[k + "dec"] = (int64_t) g.below(2);
                                p.cfg[k + "inplace"] = (int64_t) g.below(2);
                                p.cfg[k + "nt"] = g.chance(1, 4) ? 1 : 0;
                                p.cfg[k + "taglen"] = (int64_t) (8 + 4 * g.below(3));
                                p.cfg[k + "aadlen"] = (int64_t) gcm_aad_len_class(g.next());
                                p.cfg[k + "share"] = (i > 0 && g.chance(1, 3)) ? 1 : 0;
                                p.cfg[k + "keyexp"] = (int64_t) g.below(2);
                        }
                }
                bool huge_gcm = focus == "C07" && (thorough ? run_index % 50000 < 16 : run_index < 8);
                if (huge_gcm) {
                        // one GCM client whose message is longer than 2^32 bytes: one-shot call, one update call and a split into pieces
                        // below 2^32 (one of them >= 2^31) must agree. Family and direction go round-robin with the run index.
                        p.cfg["clients"] = 1;
                        p.cfg["c0_kind"] = K_GCM;
                        p.cfg["c0_fam"] = (int64_t) (run_index % 4);
                        p.cfg["c0_dec"] = (int64_t) ((run_index / 4) % 2);
                        p.cfg["c0_ks"] = (int64_t) ((run_index / 8 + g.below(2)) % 2);
                        p.cfg["c0_nt"] = 0;
                        p.cfg["c0_inplace"] = 0;
                        p.cfg["c0_share"] = 0;
                        p.cfg["c0_api"] = (int64_t) g.below(2);
                        p.cfg["c0_huge"] = 1;
                        p.cfg["c0_phase"] = (int64_t) g.below(4096);
                        p.cfg["c0_hugelen"] = (int64_t) g.below(6u << 20);
                }
                if (huge_run) {
                        // one client streaming >= 2^31 bytes from the aliased window in a single call
                        p.cfg["clients"] = 1;
                        if (focus == "C09") {
                                p.cfg["c0_kind"] = K_ROLL;
                                p.cfg["c0_fam"] = (int64_t) (run_index % 3);
                                p.cfg["c0_w"] = 1 + (int64_t) g.below(48);
                                p.cfg["c0_twin"] = 0;
                                // length class of the single run call: 0 = 2^31 + x, 1 = 2^32 - 1 (the largest max_len), 2 = 2^32 - 2, 3 = 2^32 - 1 - x
                                {
                                        uint64_t hi = run_index % 20000;
                                        p.cfg["c0_hugecls"] = hi < 3 ? 0 : hi < 6 ? 1 : 1 + (int64_t) g.below(3);
                                        if (hi >= 3 && hi < 6)
                                                p.cfg["c0_w"] = 1 + 2 * (int64_t) g.below(24) + (int64_t) (g.chance(1, 4) ? 1 : 0); // mostly odd windows
                                }
                        } else if (focus == "C10") {
                                p.cfg["c0_kind"] = K_MUR;
                                p.cfg["c0_fam"] = (int64_t) (run_index % 5);
                                p.cfg["c0_hugemode"] = (int64_t) (((thorough ? run_index % 20000 + run_index / 20000 : run_index) + 0 * g.below(3)) % 3); // modes in turn, not drawn
                        } else {
                                p.cfg["c0_kind"] = (run_index & 1) ? K_MH256 : K_MH1; // both kinds and all five families in every batch
                                p.cfg["c0_fam"] = (int64_t) ((run_index / 2) % 5);
                                p.cfg["c0_hugemode"] = (int64_t) (((thorough ? run_index % 20000 + run_index / 20000 : run_index) + 0 * g.below(3)) % 3); // modes in turn, not drawn
                        }
                        p.cfg["c0_huge"] = 1;
                        p.cfg["c0_phase"] = (int64_t) g.below(4096);
                        p.cfg["c0_api"] = (int64_t) g.below(2);
                }
                int nops = 2 + (int) g.below(60);
                for (int i = 0; i < nops; i++) {
                        Op o;
                        int x = (int) g.below(100);
                        o.kind = x < 86 ? OP_DELIVER : x < 92 ? OP_FINALIZE : x < 96 ? OP_RESTART : OP_MIGRATE;
                        o.a = (int64_t) g.below(1 << 16); // client selector
                        o.b = (int64_t) g.below(1 << 16); // fragment class
                        o.c = (int64_t) g.below(1 << 20); // value
                        o.d = (int64_t) g.below(1 << 16); // placement
                        p.ops.push_back(o);
                }
                return p;
        }

        std::string render(const Plan &p) const override
        {
                std::string s = "clients=[";
                for (int i = 0; i < p.get("clients"); i++) {
                        std::string k = strfmt("c%d_", i);
                        int kind = (int) p.get((k + "kind").c_str());
                        s += strfmt("%s%s/fam%lld len=%lld", i ? ", " : "", kind_name[kind], (long long) p.get((k + "fam").c_str()),
                                    (long long) p.get((k + "len").c_str()));
                }
                s += "] ops=[";
                for (size_t i = 0; i < p.ops.size() && i < 20; i++)
                        s += strfmt("%s%s(%lld,%lld,%lld)", i ? " " : "", p.ops[i].kind == OP_DELIVER ? "FRAG" : p.ops[i].kind == OP_FINALIZE ? "FIN" : p.ops[i].kind == OP_RESTART ? "RESTART" : "MIGRATE",
                                    (long long) p.ops[i].a, (long long) p.ops[i].b, (long long) p.ops[i].c);
                if (p.ops.size() > 20)
                        s += strfmt(" ... %zu ops", p.ops.size());
                return s + "]";
        }

        // ------------------------------------------------------------ helpers
        struct St {
                Env *env;
                RunResult *r;
                const Plan *p;
                std::vector<SClient> cl;
        };

        static Place place_of(int64_t d) { return (Place) (d % 3); }

        void make_stream(St &s, SClient &c, int ci, size_t len)
        {
                c.stream.resize(len);
                Rng g(mix64(s.p->seed, ((uint64_t) ci << 20) | (uint64_t) c.epoch), "stream");
                if (len)
                        g.fill(c.stream.data(), len);
                c.pos = 0;
                c.finalized = false;
                c.zero_at = 0;
                if (c.kind == K_ROLL && c.zerowin == 2 && len >= 48 + 1) {
                        const std::vector<uint8_t> &zw = zero_hash_window();
                        c.zero_at = 48 + (size_t) (mix64(s.p->seed, 0x2e70 + (uint64_t) ci + 8 * (uint64_t) c.epoch) % (len - 48));
                        memcpy(c.stream.data() + c.zero_at - 48, zw.data(), 48);
                }
        }

        // ---- mh / murmur
        void mh_init(St &s, SClient &c, int ci, bool again = false)
        {
                Env &e = *s.env;
                LegacyScope legacy_scope(e, c.api == 2);
                int k = c.kind; // 0,1,2 index into S.mh_*
                if (!again && (mix64(s.p->seed, 0x2ed1 + (uint64_t) ci + 16 * (uint64_t) c.epoch) & 3) == 0) {
                        // recycled object (see roll_setup): init, partial overwrite, init again
                        mh_init(s, c, ci, true);
                        size_t sz = c.kind == K_MH1 ? sizeof(struct isal_mh_sha1_ctx) : c.kind == K_MH256 ? sizeof(struct isal_mh_sha256_ctx) : sizeof(struct isal_mh_sha1_murmur3_x64_128_ctx);
                        e.recycle_corrupt(c.ctx, sz, mix64(s.p->seed, 0x2ed2 + (uint64_t) ci));
                        s.r->cov.hit("fault_object_recycled_between_two_inits_mh");
                }
                if (c.kind == K_MUR) {
                        if (c.api)
                                e.call("isal_mh_sha1_murmur3_x64_128_init", S.mh_isal_init[k], { U(c.ctx), c.mur_seed });
                        else
                                e.call("_mh_sha1_murmur3_x64_128_init", S.mh_init[k], { U(c.ctx), c.mur_seed });
                } else {
                        if (c.api)
                                e.call(strfmt("isal_%s_init", kind_name[k]).c_str(), S.mh_isal_init[k], { U(c.ctx) });
                        else
                                e.call(strfmt("_%s_init", kind_name[k]).c_str(), S.mh_init[k], { U(c.ctx) });
                }
                e.check_buf(c.ctx, "mh init");
        }

        size_t mh_frag_len(SClient &c, const Op &o)
        {
                size_t rem = c.stream.size() - c.pos;
                size_t carry = c.pos % 1024;
                size_t n;
                switch (o.b % 12) {
                case 0: n = 0; break;
                case 1: n = 1 + o.c % 15; break;
                case 2: n = 1 + o.c % 63; break;
                case 3: n = 64 * (1 + o.c % 15); break;
                case 4: n = 1023 + o.c % 3; break;
                case 5: n = 1024 * (1 + o.c % 6) - 1 + (o.c >> 4) % 3; break;
                case 6: n = 1024 - carry; break;                 // fills the carried block exactly
                case 7: n = (1024 - carry) + 1 + o.c % 1024; break; // crosses one block
                case 8: n = (1024 - carry) + 1024 * (1 + o.c % 5) + (o.c >> 3) % 1024; break; // crosses many
                case 9: n = carry ? (1024 - carry) - 1 : 1023; break; // stays just below
                case 10: n = rem; break;
                default: n = o.c % (rem + 1); break;
                }
                if (c.fragmode == 3) {
                        size_t total = c.stream.size();
                        if ((o.b % 12) == 0)
                                return 0;
                        if (c.pos == 0)
                                n = c.fragA;
                        else if (c.pos == c.fragA && total > c.fragA + c.fragB)
                                n = total - c.fragB - c.fragA;
                        else
                                n = rem;
                        return std::min(n, rem);
                }
                if (c.fragmode && (o.b % 12) != 0 && (o.b % 12) != 10)
                        n = (c.fragmode == 2 && (c.nfrag++ & 1)) ? c.fragB : c.fragA;
                return std::min(n, rem);
        }

        void mh_deliver(St &s, SClient &c, int ci, const Op &o)
        {
                Env &e = *s.env;
                LegacyScope legacy_scope(e, c.api == 2);
                int k = c.kind;
                size_t n = mh_frag_len(c, o);
                size_t carry = c.pos % 1024;
                const char *cls = n == 0 ? "empty" : carry + n < 1024 ? "stays_below" : carry + n == 1024 ? "fills_exactly" : carry + n < 2048 ? "crosses_one" : "crosses_many";
                s.r->cov.hit(strfmt("probe_%s_carry%s_frag_%s", kind_name[k], carry ? "N" : "0", cls));
                s.r->cov.state(mix64(mix64((uint64_t) k * 8 + c.fam, carry / 64), hash_str(cls)));
                Mem::Mark mk = e.mem.mark();
                uint8_t *buf = e.mem.alloc(n, 1, place_of(o.d), nullptr, "stream fragment", R_INPUT, (size_t) ((o.d >> 2) % 64));
                if (n)
                        memcpy(buf, c.stream.data() + c.pos, n);
                e.mem.snapshot(buf);
                e.ev(mix64(OP_DELIVER, ((uint64_t) ci << 40) | n));
                uint64_t rc;
                if (c.api) {
                        SlotGuard sg;
                        sg.set(S.mh_disp_update[k], S.mh_update[k][c.fam]);
                        rc = e.call(strfmt("isal_%s_update", kind_name[k]).c_str(), S.mh_isal_update[k], { U(c.ctx), U(buf), n });
                } else if (c.fam == 0 && (ci & 1) && S.mh_pubbase_update[k])
                        rc = e.call(strfmt("%s_update_base", kind_name[k]).c_str(), S.mh_pubbase_update[k], { U(c.ctx), U(buf), n });
                else
                        rc = e.call(strfmt("_%s_update_%s", kind_name[k], mh_fams[c.fam]).c_str(), S.mh_update[k][c.fam], { U(c.ctx), U(buf), n });
                e.obs(0x400 + ci, (uint32_t) rc);
                if ((uint32_t) rc != 0) {
                        const char *prop = c.kind == K_MUR ? "C10" : "C05";
                        e.violation(prop, "update-failed", std::string(prop) + "/update-failed/" + kind_name[k] + "/" + mh_fams[c.fam],
                                    strfmt("%s/%s update of %zu bytes returned %d", kind_name[k], mh_fams[c.fam], n, (int) rc));
                }
                e.check_buf(c.ctx, "mh update");
                e.check_buf(buf, "mh update");
                e.mem.release(mk);
                c.pos += n;
        }

        void mh_finalize(St &s, SClient &c, int ci)
        {
                Env &e = *s.env;
                LegacyScope legacy_scope(e, c.api == 2);
                int k = c.kind;
                bool sha256 = c.kind == K_MH256;
                size_t dl = sha256 ? 32 : 20;
                uint8_t *dig = e.mem.alloc(dl, 4, END_FLUSH, &e.hidden, "mh digest out", R_OUTPUT);
                uint8_t *mur = nullptr;
                if (c.kind == K_MUR)
                        mur = e.mem.alloc(16, 4, START_FLUSH, &e.hidden, "murmur digest out", R_OUTPUT);
                e.ev(mix64(OP_FINALIZE, (uint64_t) ci));
                uint64_t rc;
                if (c.api) {
                        SlotGuard sg;
                        sg.set(S.mh_disp_finalize[k], S.mh_finalize[k][c.fam]);
                        if (mur)
                                rc = e.call("isal_mh_sha1_murmur3_x64_128_finalize", S.mh_isal_finalize[k], { U(c.ctx), U(dig), U(mur) });
                        else
                                rc = e.call(strfmt("isal_%s_finalize", kind_name[k]).c_str(), S.mh_isal_finalize[k], { U(c.ctx), U(dig) });
                } else if (c.fam == 0 && (ci & 1) && S.mh_pubbase_finalize[k]) {
                        if (mur)
                                rc = e.call("mh_sha1_murmur3_x64_128_finalize_base", S.mh_pubbase_finalize[k], { U(c.ctx), U(dig), U(mur) });
                        else
                                rc = e.call(strfmt("%s_finalize_base", kind_name[k]).c_str(), S.mh_pubbase_finalize[k], { U(c.ctx), U(dig) });
                } else {
                        if (mur)
                                rc = e.call(strfmt("_mh_sha1_murmur3_x64_128_finalize_%s", mh_fams[c.fam]).c_str(), S.mh_finalize[k][c.fam],
                                            { U(c.ctx), U(dig), U(mur) });
                        else
                                rc = e.call(strfmt("_%s_finalize_%s", kind_name[k], mh_fams[c.fam]).c_str(), S.mh_finalize[k][c.fam], { U(c.ctx), U(dig) });
                }
                e.obs(0x410 + ci, (uint32_t) rc);
                e.obs_bytes(0x420 + ci, dig, dl);
                const char *prop = c.kind == K_MUR ? "C10" : "C05";
                std::string site = std::string(kind_name[k]) + "/" + mh_fams[c.fam];
                if ((uint32_t) rc != 0)
                        e.violation(prop, "finalize-failed", std::string(prop) + "/finalize-failed/" + site, strfmt("%s finalize returned %d", site.c_str(), (int) rc));
                std::vector<uint8_t> want = ref_mh(sha256, c.stream.data(), c.pos);
                if (memcmp(dig, want.data(), dl) != 0)
                        e.violation(prop, "mh-digest", std::string(prop) + "/mh-digest/" + site,
                                    strfmt("%s: digest %s, multi-hash definition gives %s for %zu stream bytes", site.c_str(), hex(dig, dl).c_str(),
                                           hex(want.data(), dl).c_str(), c.pos));
                if (mur) {
                        uint8_t wm[16];
                        ref_murmur3_x64_128(c.stream.data(), c.pos, c.mur_seed, wm);
                        e.obs_bytes(0x430 + ci, mur, 16);
                        if (memcmp(mur, wm, 16) != 0)
                                e.violation("C10", "murmur-digest", "C10/murmur-digest/" + site,
                                            strfmt("%s: murmur3 %s, reference %s for %zu bytes seed %llx", site.c_str(), hex(mur, 16).c_str(), hex(wm, 16).c_str(),
                                                   c.pos, (unsigned long long) c.mur_seed));
                        e.check_buf(mur, "mh finalize");
                        s.r->cov.hit(strfmt("probe_murmur_tail_len_mod16_%zu", c.pos % 16));
                }
                size_t r1024 = c.pos % 1024;
                s.r->cov.hit(strfmt("probe_%s_finalize_%s", kind_name[k], c.pos == 0 ? "empty_stream" : r1024 >= 1016 ? "two_block_padding" : "one_block_padding"));
                s.r->cov.hit("stream_finalized_and_verified");
                e.check_buf(dig, "mh finalize");
                e.check_buf(c.ctx, "mh finalize");
                c.finalized = true;
        }

        // ---- rolling
        void roll_setup(St &s, SClient &c, int ci)
        {
                Env &e = *s.env;
                LegacyScope legacy_scope(e, c.api == 2);
                uint64_t rc;
                if (c.api) {
                        rc = e.call("isal_rolling_hash2_init", S.roll_isal_init, { U(c.ctx), c.w });
                        if ((uint32_t) rc)
                                e.violation("C09", "init-failed", "C09/init-failed", strfmt("isal_rolling_hash2_init(w=%u) returned %d", c.w, (int) rc));
                } else
                        e.call("_rolling_hash2_init", S.roll_init, { U(c.ctx), c.w });
                if ((mix64(s.p->seed, 0x2ec7 + (uint64_t) ci) & 3) == 0) {
                        // recycled object: the state is initialised, its memory is then partly overwritten (used for something else), and it is
                        // initialised again with the same parameters - the second init must not trust anything it finds
                        e.recycle_corrupt(c.ctx, sizeof(struct isal_rh_state2), mix64(s.p->seed, 0x2ec8 + (uint64_t) ci));
                        s.r->cov.hit("fault_object_recycled_between_two_inits_rolling");
                        if (c.api)
                                e.call("isal_rolling_hash2_init", S.roll_isal_init, { U(c.ctx), c.w });
                        else
                                e.call("_rolling_hash2_init", S.roll_init, { U(c.ctx), c.w });
                }
                c.noreset = s.p->get(strfmt("c%d_noreset", ci).c_str()) != 0 && c.epoch == 0;
                if (c.noreset) {
                        s.r->cov.hit("probe_rolling_run_without_reset");
                        c.boundaries.clear();
                        c.model_boundaries.clear();
                        return;
                }
                uint8_t *init = e.mem.alloc(c.w, 1, (Place) (ci % 2), nullptr, "rolling init bytes", R_INPUT);
                if (!c.init_seed)
                        c.init_seed = mix64(s.p->seed, 0x1717 + (uint64_t) ci * 16 + (uint64_t) c.epoch) | 1;
                Rng g(c.init_seed, "rollinit");
                g.fill(init, c.w);
                if (c.zerowin == 1 && c.w == 48) {
                        memcpy(init, zero_hash_window().data(), 48);
                        s.r->cov.hit("probe_rolling_reset_window_with_hash_0");
                }
                e.mem.snapshot(init);
                if (c.api)
                        e.call("isal_rolling_hash2_reset", S.roll_isal_reset, { U(c.ctx), U(init) });
                else
                        e.call("_rolling_hash2_reset", S.roll_reset, { U(c.ctx), U(init) });
                e.check_buf(init, "rolling reset");
                e.check_buf(c.ctx, "rolling reset");
                c.model.init(c.w);
                c.model.reset(init);
                c.model_hash = c.model.hash();
                c.boundaries.clear();
                c.model_boundaries.clear();
                struct isal_rh_state2 *st = (struct isal_rh_state2 *) c.ctx;
                e.obs(0x500 + ci, st->hash);
                if (st->hash != c.model_hash)
                        e.violation("C09", "reset-hash", "C09/reset-hash", strfmt("after reset(w=%u) state hash %llx, definition %llx", c.w,
                                                                                  (unsigned long long) st->hash, (unsigned long long) c.model_hash));
        }

        void roll_deliver(St &s, SClient &c, int ci, const Op &o)
        {
                Env &e = *s.env;
                struct isal_rh_state2 *st = (struct isal_rh_state2 *) c.ctx;
                size_t rem = c.stream.size() - c.pos;
                uint64_t n;
                const uint8_t *src;
                Mem::Mark mk = e.mem.mark();
                uint8_t *buf = nullptr;
                if (c.huge) {
                        build_hwin();
                        // a single run over >= 2^31 bytes of the periodic window; mask/trigger chosen hit-free over a period
                        switch ((int) s.p->get(strfmt("c%d_hugecls", ci).c_str())) {
                        case 1: n = 0xffffffffull; break;
                        case 2: n = 0xfffffffeull; break;
                        case 3: n = 0xffffffffull - (uint64_t) (o.c % 4096); break;
                        default: n = (1ull << 31) + (o.c % 4096); break;
                        }
                        if (n > 0xf0000000ull)
                                s.r->cov.hit("probe_rolling_max_len_near_2^32");
                        src = g_hwin + c.pos; // c.pos holds the phase chosen by the plan
                        rem = n;
                        s.r->cov.hit("probe_rolling_max_len_ge_2^31");
                } else {
                        switch (o.b % 9) {
                        case 0: n = 0; break;
                        case 1: n = 1; break;
                        case 2: n = c.w > 1 ? 1 + o.c % (c.w - 1) : 1; break; // < w
                        case 3: n = c.w; break;
                        case 4: n = c.w + 1; break;
                        case 5: n = std::min<size_t>(rem, 16384); break;
                        case 6: n = o.c % 64; break;
                        default: n = o.c % (rem + 1); break;
                        }
                        if (c.fragmode && (o.b % 9) != 0 && (o.b % 9) != 5)
                                n = (c.fragmode == 2 && (c.nfrag++ & 1)) ? c.fragB : c.fragA;
                        n = std::min<uint64_t>(n, rem);
                        if (c.zero_at > c.pos && c.pos + n > c.zero_at)
                                n = c.zero_at - c.pos; // the call ends with the last byte of the window that hashes to 0
                        buf = e.mem.alloc(n, 1, place_of(o.d), nullptr, "rolling run buffer", R_INPUT, (size_t) ((o.d >> 2) % 64));
                        if (n)
                                memcpy(buf, c.stream.data() + c.pos, n);
                        e.mem.snapshot(buf);
                        src = buf;
                }
                uint32_t *off = (uint32_t *) e.mem.alloc(4, 4, END_FLUSH, &e.hidden, "rolling offset out", R_OUTPUT);
                int *match = (int *) e.mem.alloc(4, 4, START_FLUSH, &e.hidden, "rolling match out", R_OUTPUT);
                e.ev(mix64(OP_DELIVER, ((uint64_t) ci << 40) | n));
                SlotGuard sg;
                if (!g_force_family_api)
                        sg.set(S.roll_disp, S.roll_impl[c.fam]);
                int m;
                if (c.api == 2 && S.roll_leg_run) {
                        m = (int) (uint32_t) e.call("rolling_hash2_run", S.roll_leg_run, { U(c.ctx), U(src), n, c.mask, c.trigger, U(off) });
                } else if (c.api) {
                        uint64_t rc = e.call("isal_rolling_hash2_run", S.roll_isal_run, { U(c.ctx), U(src), n, c.mask, c.trigger, U(off), U(match) });
                        if ((uint32_t) rc)
                                e.violation("C09", "run-failed", "C09/run-failed", strfmt("isal_rolling_hash2_run returned %d", (int) rc));
                        m = *match;
                } else
                        m = (int) (uint32_t) e.call("_rolling_hash2_run", S.roll_run, { U(c.ctx), U(src), n, c.mask, c.trigger, U(off) });
                e.obs(0x510 + ci, (uint64_t) m);
                e.obs(0x520 + ci, *off);
                e.obs(0x530 + ci, st->hash);
                // model
                uint32_t moff = 0;
                int mm;
                if (c.huge) {
                        // the model scans one period + w incrementally (the stream is periodic); no hit by construction
                        mm = 0;
                        moff = (uint32_t) n;
                } else if (c.noreset) {
                        // no model: follow what the library reports (it must at least stay inside the call's range)
                        mm = m == ISAL_FINGERPRINT_RET_HIT;
                        moff = *off;
                        if ((uint64_t) *off > n) {
                                e.violation("C09", "offset-out-of-range", std::string("C09/offset-out-of-range/rolling_hash2/") + roll_impls[c.fam],
                                            strfmt("run over %llu bytes reported offset %u", (unsigned long long) n, *off));
                                moff = (uint32_t) n;
                        }
                        c.model_hash = st->hash;
                } else {
                        mm = c.model.run(c.stream.data() + c.pos, (uint32_t) n, c.mask, c.trigger, &moff);
                        c.model_hash = c.model.hash();
                }
                std::string site = std::string("rolling_hash2/") + roll_impls[c.fam];
                const char *cls = n == 0 ? "zero" : n < c.w ? "lt_w" : n == c.w ? "eq_w" : "gt_w";
                s.r->cov.hit(strfmt("probe_rolling_%s_maxlen_%s_%s", roll_impls[c.fam], cls, mm ? (moff <= c.w ? "hit_in_first_w" : "hit_after_w") : "max"));
                s.r->cov.state(mix64(mix64(0x90 + c.fam, c.w), mix64(hash_str(cls), (uint64_t) mm * 2 + (moff <= c.w))));
                int want_m = mm ? ISAL_FINGERPRINT_RET_HIT : ISAL_FINGERPRINT_RET_MAX;
                if (m != want_m || *off != moff)
                        e.violation("C09", c.huge ? "huge-run" : "boundary", std::string("C09/") + (c.huge ? "huge-run/" : "boundary/") + site,
                                    strfmt("%s w=%u mask=%x trigger=%x: run over %llu bytes returned (match=%d, offset=%u), definition gives (match=%d, offset=%u)",
                                           site.c_str(), c.w, c.mask, c.trigger, (unsigned long long) n, m, *off, want_m, moff));
                if (!c.huge && st->hash != c.model_hash)
                        e.violation("C09", "state-hash", "C09/state-hash/" + site,
                                    strfmt("%s w=%u: state hash %llx after the call, hash of the last w stream bytes is %llx", site.c_str(), c.w,
                                           (unsigned long long) st->hash, (unsigned long long) c.model_hash));
                if (!c.huge && !c.noreset && c.model_hash == 0 && n && !mm)
                        s.r->cov.hit("probe_rolling_call_ends_on_a_window_with_hash_0");
                if (buf)
                        e.check_buf(buf, "rolling run");
                e.check_buf(c.ctx, "rolling run");
                e.check_buf(off, "rolling run");
                e.check_buf(match, "rolling run");
                e.mem.release(mk);
                if (c.huge) {
                        c.finalized = true;
                        return;
                }
                c.pos += moff;
                if (mm)
                        c.boundaries.push_back(c.pos);
        }

        // ---- gcm
        void gcm_secrets(St &s, SClient &c)
        {
                Env &e = *s.env;
                e.secrets.clear();
                e.secrets.add_range(c.key.data(), c.key.size(), "the raw key");
                size_t nrk = c.ks ? 15 : 11;
                e.secrets.add_range(c.key_data, 16 * nrk, "an encryption round key");
                if (!c.dec_sched.empty())
                        e.secrets.add_range(c.dec_sched.data(), 16 * nrk, "a decryption round key");
                // hash key and its powers
                size_t hk_bytes = strcmp(gcm_fams[c.fam], "vaes_avx512") == 0 ? sizeof(struct isal_gcm_key_data) - 16 * 15 : 16 * 16;
                e.secrets.add_range(c.key_data + 16 * 15, hk_bytes, "the GHASH key or one of its powers");
                e.scan_secrets = true;
        }

        void gcm_make_key(St &s, SClient &c, int ci)
        {
                Env &e = *s.env;
                LegacyScope legacy_scope(e, c.api == 2);
                if (c.share_with >= 0) {
                        SClient &o = s.cl[c.share_with];
                        c.key_data = o.key_data;
                        c.key = o.key;
                        c.dec_sched = o.dec_sched;
                        s.r->cov.hit("probe_gcm_contexts_sharing_key_data");
                        return;
                }
                c.key.resize(c.ks ? 32 : 16);
                Rng g(mix64(s.p->seed, 0x6b65790000ULL + (uint64_t) ci), "key");
                g.fill(c.key.data(), c.key.size());
                uint8_t *key = e.mem.alloc(c.key.size(), 1, (Place) (ci % 3), nullptr, "raw key", R_INPUT, 3);
                memcpy(key, c.key.data(), c.key.size());
                e.mem.snapshot(key);
                c.key_data = e.mem.alloc(sizeof(struct isal_gcm_key_data), 16, (Place) ((ci + 1) % 3), &e.hidden, "gcm key data", R_OBJECT, 16 * (size_t) (ci % 3));
                int bits = c.ks ? 256 : 128;
                c.dec_sched.assign(16 * 15, 0);
                if (c.api) {
                        SlotGuard sg;
                        sg.set(S.d_keyexp[c.ks], S.keyexp[c.ks][c.keyexp_fam]);
                        sg.set(S.d_precomp[c.ks], S.precomp[c.ks][c.pre_fam]);
                        // needles: raw key only (schedule not known before the call)
                        e.secrets.clear();
                        e.secrets.add_range(c.key.data(), c.key.size(), "the raw key");
                        e.scan_secrets = true;
                        uint64_t rc = e.call(strfmt("isal_aes_gcm_pre_%d", bits).c_str(), S.isal_pre[c.ks], { U(key), U(c.key_data) });
                        if ((uint32_t) rc)
                                e.violation("C07", "pre-failed", "C07/pre-failed", strfmt("isal_aes_gcm_pre_%d returned %d", bits, (int) rc));
                        // a second precompute with full needles (schedule now known) decides residue of round keys / hash keys
                        uint8_t *kd2 = e.mem.alloc(sizeof(struct isal_gcm_key_data), 16, START_FLUSH, &e.hidden, "gcm key data (2nd)", R_OBJECT);
                        // decryption schedule needles via the family keyexp
                        uint8_t *tmpd = e.mem.alloc(16 * 15, 16, END_FLUSH, &e.hidden, "dec schedule out", R_OUTPUT);
                        uint8_t *tmpe = e.mem.alloc(16 * 15, 16, END_FLUSH, &e.hidden, "enc schedule out", R_OUTPUT);
                        e.call(strfmt("_aes_keyexp_%d_%s", bits, c.keyexp_fam ? "avx" : "sse").c_str(), S.keyexp[c.ks][c.keyexp_fam], { U(key), U(tmpe), U(tmpd) });
                        c.dec_sched.assign(tmpd, tmpd + 16 * 15);
                        gcm_secrets(s, c);
                        e.call(strfmt("isal_aes_gcm_pre_%d", bits).c_str(), S.isal_pre[c.ks], { U(key), U(kd2) });
                } else {
                        uint8_t *tmpd = e.mem.alloc(16 * 15, 16, END_FLUSH, &e.hidden, "dec schedule out", R_OUTPUT);
                        e.secrets.clear();
                        e.secrets.add_range(c.key.data(), c.key.size(), "the raw key");
                        e.scan_secrets = true;
                        e.call(strfmt("_aes_keyexp_%d_%s", bits, c.keyexp_fam ? "avx" : "sse").c_str(), S.keyexp[c.ks][c.keyexp_fam],
                               { U(key), U(c.key_data), U(tmpd) });
                        c.dec_sched.assign(tmpd, tmpd + 16 * 15);
                        e.secrets.clear();
                        e.secrets.add_range(c.key.data(), c.key.size(), "the raw key");
                        e.secrets.add_range(c.key_data, 16 * (c.ks ? 15 : 11), "an encryption round key");
                        e.scan_secrets = true;
                        e.call(strfmt("_aes_gcm_precomp_%d_%s", bits, gcm_fams[c.pre_fam]).c_str(), S.precomp[c.ks][c.pre_fam], { U(c.key_data) });
                }
                e.check_buf(key, "gcm pre");
                e.check_buf(c.key_data, "gcm pre");
                e.mem.snapshot(c.key_data); // constant from now on
        }

        // one-shot reference through the same family (the oracle of C07)
        void gcm_reference(St &s, SClient &c, int ci)
        {
                Env &e = *s.env;
                size_t n = c.stream.size();
                int bits = c.ks ? 256 : 128;
                uint8_t *ctx2 = e.mem.alloc(sizeof(struct isal_gcm_context_data), 8, START_FLUSH, &e.hidden, "gcm one-shot context", R_OBJECT);
                uint8_t *in = e.mem.alloc(n, 1, END_FLUSH, nullptr, "gcm one-shot input", R_INPUT);
                uint8_t *out = e.mem.alloc(n, 1, END_FLUSH, &e.hidden, "gcm one-shot output", R_OUTPUT);
                uint8_t *tag = e.mem.alloc(c.tag_len, 1, END_FLUSH, &e.hidden, "gcm one-shot tag", R_OUTPUT);
                if (n)
                        memcpy(in, c.stream.data(), n);
                e.mem.snapshot(in);
                gcm_secrets(s, c);
                // always encrypt the plaintext stream first
                e.call(strfmt("_aes_gcm_enc_%d_%s", bits, gcm_fams[c.fam]).c_str(), S.enc[c.ks][c.fam],
                       { U(c.key_data), U(ctx2), U(out), U(in), n, U(c.iv), U(c.aad), c.aad_len, U(tag), (uint64_t) c.tag_len });
                e.check_buf(out, "gcm one-shot");
                e.check_buf(tag, "gcm one-shot");
                e.check_buf(in, "gcm one-shot");
                c.ref_tag.assign(tag, tag + c.tag_len);
                if (!c.dec) {
                        c.in_stream = c.stream;
                        c.ref_out.assign(out, out + n);
                } else {
                        c.in_stream.assign(out, out + n);
                        c.ref_out = c.stream;
                        // the one-shot decrypt must agree as well (used as a run-health probe; functional equality is C02)
                }
                e.obs_bytes(0x620 + ci, out, n);
                e.obs_bytes(0x630 + ci, tag, c.tag_len);
        }

        void gcm_init(St &s, SClient &c, int ci)
        {
                Env &e = *s.env;
                LegacyScope legacy_scope(e, c.api == 2);
                int bits = c.ks ? 256 : 128;
                Rng g(mix64(s.p->seed, 0x1700000000ULL + (uint64_t) ci * 64 + (uint64_t) c.epoch), "iv");
                c.iv = e.mem.alloc(12, 1, (Place) ((ci + c.epoch) % 2), nullptr, "gcm iv", R_INPUT);
                g.fill(c.iv, 12);
                e.mem.snapshot(c.iv);
                c.aad = e.mem.alloc(c.aad_len, 1, (Place) ((ci + c.epoch + 1) % 2), nullptr, "gcm aad", R_INPUT);
                g.fill(c.aad, c.aad_len);
                e.mem.snapshot(c.aad);
                gcm_reference(s, c, ci);
                gcm_secrets(s, c);
                if (c.api) {
                        SlotGuard sg;
                        sg.set(S.d_init[c.ks], S.ginit[c.ks][c.fam]);
                        uint64_t rc = e.call(strfmt("isal_aes_gcm_init_%d", bits).c_str(), S.isal_init[c.ks], { U(c.key_data), U(c.ctx), U(c.iv), U(c.aad), c.aad_len });
                        if ((uint32_t) rc)
                                e.violation("C07", "init-failed", "C07/init-failed", strfmt("isal_aes_gcm_init_%d returned %d", bits, (int) rc));
                } else
                        e.call(strfmt("_aes_gcm_init_%d_%s", bits, gcm_fams[c.fam]).c_str(), S.ginit[c.ks][c.fam], { U(c.key_data), U(c.ctx), U(c.iv), U(c.aad), c.aad_len });
                e.check_buf(c.ctx, "gcm init");
                e.check_buf(c.iv, "gcm init");
                e.check_buf(c.aad, "gcm init");
                e.check_buf(c.key_data, "gcm init");
                c.out_stream.clear();
                c.pos = 0;
                c.finalized = false;
        }

        void gcm_deliver(St &s, SClient &c, int ci, const Op &o)
        {
                Env &e = *s.env;
                LegacyScope legacy_scope(e, c.api == 2);
                int bits = c.ks ? 256 : 128;
                size_t rem = c.in_stream.size() - c.pos;
                size_t n;
                size_t carry = c.pos % 16;
                switch (o.b % 10) {
                case 0: n = 0; break;
                case 1: n = 1 + o.c % 15; break;
                case 2: n = 16 - carry; break; // completes the carried block exactly
                case 3: n = carry ? (16 - carry) - 1 : 15; break; // stays below
                case 4: n = (16 - carry) + 16 * (o.c % 50) + (o.c >> 6) % 16; break; // crosses into the bulk loops
                case 5: n = o.c % (48 * 16 + 18); break;
                case 6: n = 16 * (o.c % 60); break;
                case 7: n = rem; break;
                case 8: {
                        // stop in the neighbourhood of a wrap of the low counter byte: blocks consumed = 256*k - j, j in 0..40
                        size_t blk = c.pos / 16, j = (size_t) (o.c % 41);
                        size_t target_blk = ((blk + j) / 256 + 1) * 256 - j;
                        size_t target = target_blk * 16 + (size_t) ((o.c >> 6) % 3) - 1; // just before, on, just after a block boundary
                        n = target > c.pos ? target - c.pos : 16;
                        break;
                }
                default: n = o.c % (rem + 1); break;
                }
                if (c.fragmode && (o.b % 10) != 0 && (o.b % 10) != 7 && (o.b % 10) != 8) { // never the "rest" class: finalize relies on it
                        n = (c.fragmode == 2 && (c.nfrag++ & 1)) ? c.fragB : c.fragA;
                        if (c.nt)
                                n = 64 * (1 + n % 8);
                }
                n = std::min(n, rem);
                if (c.nt && n != rem)
                        n = (n / 64) * 64; // non-final pieces must be multiples of 64
                size_t align = c.nt ? 64 : 1;
                const char *cls = n == 0 ? "empty" : carry + n < 16 ? "stays_below" : carry + n == 16 ? "completes_exactly" : n < 128 ? "crosses_small" : n < 768 ? "crosses_by8" : "crosses_by48";
                s.r->cov.hit(strfmt("probe_gcm_%s_%s_carry%zu_%s", gcm_fams[c.fam], c.dec ? "dec" : "enc", carry, cls));
                s.r->cov.state(mix64(mix64(0x70 + c.fam * 4 + c.ks * 2 + c.dec, carry), mix64(n % 16, hash_str(cls) ^ (c.nt * 3 + c.inplace))));
                uint8_t *in, *out;
                Mem::Mark mk = e.mem.mark();
                Place pl = place_of(o.d);
                size_t off = c.nt ? 64 * (size_t) ((o.d >> 2) % 4) : (size_t) ((o.d >> 2) % 64);
                if (c.inplace) {
                        in = e.mem.alloc(n, align, pl, nullptr, "gcm in-place fragment", R_OUTPUT, off);
                        out = in;
                } else {
                        in = e.mem.alloc(n, align, pl, nullptr, "gcm input fragment", R_INPUT, off);
                        out = e.mem.alloc(n, align, (Place) ((o.d >> 8) % 3), &e.hidden, "gcm output fragment", R_OUTPUT, c.nt ? 64 : (size_t) ((o.d >> 10) % 64));
                }
                if (n)
                        memcpy(in, c.in_stream.data() + c.pos, n);
                if (!c.inplace)
                        e.mem.snapshot(in);
                e.ev(mix64(OP_DELIVER, ((uint64_t) ci << 40) | n));
                gcm_secrets(s, c);
                void *fn;
                std::string nm;
                if (c.api) {
                        SlotGuard sg;
                        void **slot = c.nt ? (c.dec ? S.d_dec_upd_nt[c.ks] : S.d_enc_upd_nt[c.ks]) : (c.dec ? S.d_dec_upd[c.ks] : S.d_enc_upd[c.ks]);
                        void *tgt = c.nt ? (c.dec ? S.dec_upd_nt[c.ks][c.fam] : S.enc_upd_nt[c.ks][c.fam]) : (c.dec ? S.dec_upd[c.ks][c.fam] : S.enc_upd[c.ks][c.fam]);
                        sg.set(slot, tgt);
                        fn = c.nt ? (c.dec ? S.isal_dec_upd_nt[c.ks] : S.isal_enc_upd_nt[c.ks]) : (c.dec ? S.isal_dec_upd[c.ks] : S.isal_enc_upd[c.ks]);
                        nm = strfmt("isal_aes_gcm_%s_%d_update%s", c.dec ? "dec" : "enc", bits, c.nt ? "_nt" : "");
                        uint64_t rc = e.call(nm.c_str(), fn, { U(c.key_data), U(c.ctx), U(out), U(in), n });
                        if ((uint32_t) rc)
                                e.violation("C07", "update-failed", "C07/update-failed/" + nm, strfmt("%s returned %d", nm.c_str(), (int) rc));
                } else {
                        fn = c.nt ? (c.dec ? S.dec_upd_nt[c.ks][c.fam] : S.enc_upd_nt[c.ks][c.fam]) : (c.dec ? S.dec_upd[c.ks][c.fam] : S.enc_upd[c.ks][c.fam]);
                        nm = strfmt("_aes_gcm_%s_%d_update_%s%s", c.dec ? "dec" : "enc", bits, gcm_fams[c.fam], c.nt ? "_nt" : "");
                        e.call(nm.c_str(), fn, { U(c.key_data), U(c.ctx), U(out), U(in), n });
                }
                e.obs_bytes(0x640 + ci, out, n);
                c.out_stream.insert(c.out_stream.end(), out, out + n);
                std::string site = strfmt("gcm%d/%s/%s%s", bits, gcm_fams[c.fam], c.dec ? "dec" : "enc", c.nt ? "_nt" : "");
                if (n && memcmp(out, c.ref_out.data() + c.pos, n) != 0) {
                        size_t k = 0;
                        while (k < n && out[k] == c.ref_out[c.pos + k])
                                k++;
                        e.violation("C07", "output-bytes", "C07/output-bytes/" + site,
                                    strfmt("%s: update of %zu bytes at stream offset %zu (carried partial %zu, %s) differs from the one-shot result at byte %zu",
                                           site.c_str(), n, c.pos, carry, c.inplace ? "in place" : "out of place", c.pos + k));
                }
                e.check_buf(out, nm.c_str());
                if (!c.inplace)
                        e.check_buf(in, nm.c_str());
                e.check_buf(c.ctx, nm.c_str());
                e.check_buf(c.key_data, nm.c_str());
                e.mem.release(mk);
                c.pos += n;
        }

        void gcm_finalize(St &s, SClient &c, int ci)
        {
                Env &e = *s.env;
                LegacyScope legacy_scope(e, c.api == 2);
                int bits = c.ks ? 256 : 128;
                // 1 finalize in 32 through the family symbols or the deprecated API asks for a tag length other than 8 / 12 / 16 (outside the
                // documented values; the isal_ wrappers refuse it): what is written then is not judged, the monitors are (C08 with a 16-byte
                // buffer, C14, C18, C19)
                uint64_t oddsel = mix64(s.p->seed, 0x7a90 + (uint64_t) ci * 8 + (uint64_t) c.epoch);
                if (c.api != 1 && (oddsel & 31) == 5) {
                        static const int odd[13] = { 1, 2, 3, 4, 5, 6, 7, 9, 10, 11, 13, 14, 15 };
                        int tl = odd[(oddsel >> 8) % 13];
                        uint8_t *tagb = e.mem.alloc(16, 1, (Place) (ci % 2), &e.hidden, "gcm tag out (16 bytes for an undocumented length)", R_OUTPUT);
                        gcm_secrets(s, c);
                        s.r->cov.hit("probe_gcm_finalize_with_undocumented_tag_length");
                        {
                                LegacyScope legacy2(e, c.api == 2);
                                if (c.api == 2) {
                                        SlotGuard sg;
                                        sg.set(c.dec ? S.d_dec_fin[c.ks] : S.d_enc_fin[c.ks], c.dec ? S.dec_fin[c.ks][c.fam] : S.enc_fin[c.ks][c.fam]);
                                        e.call(strfmt("isal_aes_gcm_%s_%d_finalize", c.dec ? "dec" : "enc", bits).c_str(), c.dec ? S.isal_dec_fin[c.ks] : S.isal_enc_fin[c.ks],
                                               { U(c.key_data), U(c.ctx), U(tagb), (uint64_t) tl });
                                } else
                                        e.call(strfmt("_aes_gcm_%s_%d_finalize_%s", c.dec ? "dec" : "enc", bits, gcm_fams[c.fam]).c_str(),
                                               c.dec ? S.dec_fin[c.ks][c.fam] : S.enc_fin[c.ks][c.fam], { U(c.key_data), U(c.ctx), U(tagb), (uint64_t) tl });
                        }
                        e.check_buf(tagb, "gcm finalize (undocumented tag length)");
                        e.check_buf(c.ctx, "gcm finalize (undocumented tag length)");
                        e.check_buf(c.key_data, "gcm finalize (undocumented tag length)");
                        c.finalized = true;
                        return;
                }
                uint8_t *tag = e.mem.alloc(c.tag_len, 1, (Place) (ci % 2), &e.hidden, "gcm tag out", R_OUTPUT);
                gcm_secrets(s, c);
                std::string nm;
                if (c.api) {
                        SlotGuard sg;
                        sg.set(c.dec ? S.d_dec_fin[c.ks] : S.d_enc_fin[c.ks], c.dec ? S.dec_fin[c.ks][c.fam] : S.enc_fin[c.ks][c.fam]);
                        nm = strfmt("isal_aes_gcm_%s_%d_finalize", c.dec ? "dec" : "enc", bits);
                        uint64_t rc = e.call(nm.c_str(), c.dec ? S.isal_dec_fin[c.ks] : S.isal_enc_fin[c.ks], { U(c.key_data), U(c.ctx), U(tag), (uint64_t) c.tag_len });
                        if ((uint32_t) rc)
                                e.violation("C07", "finalize-failed", "C07/finalize-failed/" + nm, strfmt("%s returned %d", nm.c_str(), (int) rc));
                } else {
                        nm = strfmt("_aes_gcm_%s_%d_finalize_%s", c.dec ? "dec" : "enc", bits, gcm_fams[c.fam]);
                        e.call(nm.c_str(), c.dec ? S.dec_fin[c.ks][c.fam] : S.enc_fin[c.ks][c.fam], { U(c.key_data), U(c.ctx), U(tag), (uint64_t) c.tag_len });
                }
                e.obs_bytes(0x650 + ci, tag, c.tag_len);
                std::string site = strfmt("gcm%d/%s/%s%s", bits, gcm_fams[c.fam], c.dec ? "dec" : "enc", c.nt ? "_nt" : "");
                if (memcmp(tag, c.ref_tag.data(), c.tag_len) != 0)
                        e.violation("C07", "tag", "C07/tag/" + site,
                                    strfmt("%s: streamed tag %s differs from the one-shot tag %s (%zu bytes, aad %zu, tag_len %d)", site.c_str(),
                                           hex(tag, c.tag_len).c_str(), hex(c.ref_tag.data(), c.tag_len).c_str(), c.pos, c.aad_len, c.tag_len));
                e.check_buf(tag, nm.c_str());
                e.check_buf(c.ctx, nm.c_str());
                e.check_buf(c.key_data, nm.c_str());
                s.r->cov.hit("stream_finalized_and_verified");
                c.finalized = true;
        }

        // ------------------------------------------------------------ generic client ops
        void start(St &s, int ci)
        {
                SClient &c = s.cl[ci];
                std::string k = strfmt("c%d_", ci);
                size_t len = (size_t) s.p->get((k + "len").c_str());
                if (c.epoch > 0) // restarted streams get a different length
                        len = (size_t) (mix64(s.p->seed, 0xabcd + (uint64_t) ci * 8 + (uint64_t) c.epoch) % (len + 2048));
                if (c.kind == K_ROLL && s.p->get((k + "twin").c_str()) && ci > 0 && s.cl[ci - 1].kind == K_ROLL && c.epoch == 0) {
                        // twin: same stream, window and mask as the previous rolling client, different fragmentation
                        c.stream = s.cl[ci - 1].stream;
                        c.w = s.cl[ci - 1].w;
                        c.mask = s.cl[ci - 1].mask;
                        c.trigger = s.cl[ci - 1].trigger;
                        c.init_seed = s.cl[ci - 1].init_seed;
                        c.zerowin = s.cl[ci - 1].zerowin; // same reset window as the twin
                        c.zero_at = s.cl[ci - 1].zero_at;
                        c.pos = 0;
                        c.finalized = false;
                        s.r->cov.hit("probe_rolling_twin_client_same_stream");
                } else {
                        make_stream(s, c, ci, len);
                        c.init_seed = 0;
                }
                if (c.kind <= K_MUR)
                        mh_init(s, c, ci);
                else if (c.kind == K_ROLL)
                        roll_setup(s, c, ci);
                else
                        gcm_init(s, c, ci);
        }

        void deliver(St &s, int ci, const Op &o)
        {
                SClient &c = s.cl[ci];
                if (c.finalized)
                        return;
                if (c.kind <= K_MUR)
                        mh_deliver(s, c, ci, o);
                else if (c.kind == K_ROLL)
                        roll_deliver(s, c, ci, o);
                else
                        gcm_deliver(s, c, ci, o);
        }

        void finalize(St &s, int ci, bool truncate)
        {
                SClient &c = s.cl[ci];
                if (c.finalized)
                        return;
                if (c.huge) {
                        Op o;
                        o.kind = OP_DELIVER;
                        if (c.kind == K_ROLL)
                                roll_deliver(s, c, ci, o);
                        else
                                mh_huge(s, c, ci, o);
                        return;
                }
                if (!truncate || c.kind == K_GCM || c.kind == K_ROLL) {
                        // deliver the rest first (GCM's one-shot reference covers the whole stream)
                        int guard = 0;
                        while (c.pos < (c.kind == K_GCM ? c.in_stream.size() : c.stream.size()) && guard++ < 100000) {
                                Op o;
                                o.kind = OP_DELIVER;
                                o.b = c.kind == K_ROLL ? 5 : c.kind == K_GCM ? 7 : 10; // "rest"
                                o.c = 0;
                                o.d = (int64_t) ci;
                                deliver(s, ci, o);
                                if (c.finalized)
                                        return;
                        }
                }
                if (c.kind <= K_MUR)
                        mh_finalize(s, c, ci);
                else if (c.kind == K_GCM)
                        gcm_finalize(s, c, ci);
                else {
                        // rolling: the stream is over; boundaries must match the model's
                        c.finalized = true;
                        s.r->cov.hit("stream_finalized_and_verified");
                }
        }

        void execute(const Plan &p, Env &e, RunResult &r) override
        {
                St s;
                s.env = &e;
                s.r = &r;
                s.p = &p;
                int nc = (int) std::max<int64_t>(1, std::min<int64_t>(p.get("clients"), 8));
                s.cl.resize(nc);
                for (int i = 0; i < nc; i++) {
                        SClient &c = s.cl[i];
                        std::string k = strfmt("c%d_", i);
                        c.kind = (int) (p.get((k + "kind").c_str()) % K_N);
                        c.api = g_force_family_api ? 0 : (int) p.get((k + "api").c_str());
                        c.fragmode = (int) p.get((k + "fragmode").c_str());
                        c.fragA = (size_t) std::max<int64_t>(1, p.get((k + "fragA").c_str(), 1));
                        c.fragB = (size_t) std::max<int64_t>(1, p.get((k + "fragB").c_str(), 1));
                        Place pl = (Place) (p.get((k + "place").c_str()) % 3);
                        if (c.kind <= K_MUR) {
                                c.fam = (int) (p.get((k + "fam").c_str()) % 5);
                                size_t sz = c.kind == K_MH1 ? sizeof(struct isal_mh_sha1_ctx) : c.kind == K_MH256 ? sizeof(struct isal_mh_sha256_ctx) : sizeof(struct isal_mh_sha1_murmur3_x64_128_ctx);
                                c.ctx = e.mem.alloc(sz, 8, pl, &e.hidden, "mh context", R_OBJECT, 8 * (size_t) (i + 1));
                                c.mur_seed = mix64(p.seed, 0x5eed + (uint64_t) i);
                                c.huge = p.get((k + "huge").c_str()) != 0;
                        } else if (c.kind == K_ROLL) {
                                c.fam = (int) (p.get((k + "fam").c_str()) % 3);
                                c.w = (uint32_t) std::max<int64_t>(1, std::min<int64_t>(p.get((k + "w").c_str(), 16), 48));
                                c.mask = (uint32_t) p.get((k + "mask").c_str());
                                c.trigger = (uint32_t) p.get((k + "trigger").c_str()) & c.mask;
                                c.huge = p.get((k + "huge").c_str()) != 0;
                                c.zerowin = c.huge ? 0 : (int) p.get((k + "zerowin").c_str());
                                c.ctx = e.mem.alloc(sizeof(struct isal_rh_state2), 8, pl, &e.hidden, "rolling state", R_OBJECT, 8 * (size_t) (i + 1));
                                if (p.get((k + "maskgen_mean").c_str())) {
                                        uint32_t mean = (uint32_t) p.get((k + "maskgen_mean").c_str()), shift = (uint32_t) p.get((k + "maskgen_shift").c_str());
                                        uint32_t *mo = (uint32_t *) e.mem.alloc(4, 4, END_FLUSH, &e.hidden, "mask out", R_OUTPUT);
                                        uint64_t rc;
                                        if (c.api == 2 && S.roll_leg_maskgen) {
                                                *mo = (uint32_t) e.call("rolling_hashx_mask_gen", S.roll_leg_maskgen, { mean, shift });
                                                rc = 0;
                                        } else
                                                rc = e.call("isal_rolling_hashx_mask_gen", S.roll_maskgen, { mean, shift, U(mo) });
                                        e.obs(0x540 + i, *mo);
                                        uint32_t want = ref_mask_gen(mean, shift);
                                        if ((uint32_t) rc || *mo != want)
                                                e.violation("C09", "mask-gen", "C09/mask-gen", strfmt("mask_gen(mean=%u, shift=%u) returned %d, mask %x; formula gives %x", mean, shift, (int) rc, *mo, want));
                                        e.check_buf(mo, "mask_gen");
                                        c.mask = *mo;
                                        c.trigger &= c.mask;
                                        r.cov.hit("probe_mask_from_mask_gen");
                                }
                                if (c.huge) {
                                        // choose (mask, trigger) without any hit over one period of the window (model scan)
                                        build_hwin();
                                        // window phase is part of the plan (o.d % 64 applied at deliver time uses offset from g_hwin)
                                }
                        } else {
                                c.fam = (int) (p.get((k + "fam").c_str()) % 4);
                                c.ks = (int) (p.get((k + "ks").c_str()) & 1);
                                c.dec = p.get((k + "dec").c_str()) != 0;
                                c.inplace = p.get((k + "inplace").c_str()) != 0;
                                c.nt = p.get((k + "nt").c_str()) != 0;
                                c.tag_len = (int) p.get((k + "taglen").c_str(), 16);
                                if (c.tag_len != 8 && c.tag_len != 12 && c.tag_len != 16)
                                        c.tag_len = 16;
                                c.aad_len = (size_t) std::max<int64_t>(0, p.get((k + "aadlen").c_str()));
                                c.keyexp_fam = (int) (p.get((k + "keyexp").c_str()) & 1);
                                // key data may be prepared by one family and used by another ("to allow users to switch cpu architectures between
                                // calls of pre, init, update, and finalize", gcm_avx_gen4.asm): among the three families that share the layout
                                c.pre_fam = c.fam;
                                if (c.fam < 3 && (mix64(p.seed, 0x9ef0 + (uint64_t) i) & 3) == 0) {
                                        c.pre_fam = (c.fam + 1 + (int) ((mix64(p.seed, 0x9ef1 + (uint64_t) i) >> 8) % 2)) % 3;
                                        r.cov.hit("probe_gcm_key_data_prepared_by_another_family");
                                }
                                c.share_with = -1;
                                if (p.get((k + "share").c_str()))
                                        for (int j = i - 1; j >= 0; j--)
                                                if (s.cl[j].kind == K_GCM && s.cl[j].ks == c.ks && s.cl[j].fam == c.fam) {
                                                        c.share_with = j;
                                                        break;
                                                }
                                c.huge = p.get((k + "huge").c_str()) != 0;
                                c.ctx = e.mem.alloc(sizeof(struct isal_gcm_context_data), 8, pl, &e.hidden, "gcm context", R_OBJECT, 8 * (size_t) (i + 1));
                                gcm_make_key(s, c, i);
                        }
                        e.ev(mix64(0x5712, ((uint64_t) c.kind << 8) | (uint64_t) c.fam));
                }
                // huge clients: special single op
                for (int i = 0; i < nc; i++) {
                        SClient &c = s.cl[i];
                        if (c.huge && c.kind == K_ROLL) {
                                pick_hitfree(s, c);
                                roll_setup_huge(s, c, i);
                        } else if (c.huge && c.kind == K_GCM)
                                gcm_huge(s, c, i);
                        else
                                start(s, i);
                }
                for (size_t oi = 0; oi < p.ops.size(); oi++) {
                        e.op_index = (int) oi;
                        const Op &o = p.ops[oi];
                        int ci = (int) (o.a % nc);
                        SClient &c = s.cl[ci];
                        if (c.huge && c.kind <= K_MUR) {
                                mh_huge(s, c, ci, o);
                                continue;
                        }
                        switch (o.kind) {
                        case OP_DELIVER: deliver(s, ci, o); break;
                        case OP_FINALIZE:
                                finalize(s, ci, true);
                                break;
                        case OP_RESTART:
                                if (c.huge)
                                        break;
                                // abandon the stream mid-way (client "crashes"), re-init the same context object
                                if (!c.finalized)
                                        r.cov.hit(strfmt("fault_restart_abandoned_mid_stream_%s", kind_name[c.kind]));
                                c.epoch++;
                                start(s, ci);
                                break;
                        case OP_MIGRATE: {
                                // checkpoint / restore: the client's plain-data object (stream context, rolling state, GCM context) is copied to another
                                // address with a different phase within a cache line, the old copy is scribbled over, and the stream goes on there
                                if (c.huge || !c.ctx)
                                        break;
                                size_t sz = c.kind == K_MH1     ? sizeof(struct isal_mh_sha1_ctx)
                                            : c.kind == K_MH256 ? sizeof(struct isal_mh_sha256_ctx)
                                            : c.kind == K_MUR   ? sizeof(struct isal_mh_sha1_murmur3_x64_128_ctx)
                                            : c.kind == K_ROLL  ? sizeof(struct isal_rh_state2)
                                                                : sizeof(struct isal_gcm_context_data);
                                uint8_t *old = c.ctx;
                                uint8_t *nw = e.mem.alloc(sz, 8, (Place) (o.d % 3), &e.hidden, "migrated object", R_OBJECT, 8 * (size_t) (1 + o.c % 7));
                                memcpy(nw, old, sz);
                                e.hidden.fill(old, sz);
                                c.ctx = nw;
                                e.ev(mix64(OP_MIGRATE, ((uint64_t) ci << 8) | (((uintptr_t) nw ^ (uintptr_t) old) & 63)));
                                r.cov.hit(strfmt("fault_object_migrated_mid_stream_%s%s", kind_name[c.kind], (((uintptr_t) nw ^ (uintptr_t) old) & 63) ? "_other_line_phase" : ""));
                                break;
                        }
                        }
                }
                e.op_index = (int) p.ops.size();
                for (int i = 0; i < nc; i++)
                        finalize(s, i, false);
                // rolling twins: identical boundary lists
                for (int i = 1; i < nc; i++)
                        if (s.cl[i].kind == K_ROLL && p.get(strfmt("c%d_twin", i).c_str()) && s.cl[i - 1].kind == K_ROLL && s.cl[i].epoch == 0 && s.cl[i - 1].epoch == 0 &&
                            !s.cl[i].huge && !s.cl[i - 1].huge && !s.cl[i].noreset && !s.cl[i - 1].noreset && s.cl[i].stream == s.cl[i - 1].stream && s.cl[i].w == s.cl[i - 1].w) {
                                // both consumed the whole stream; compare up to the shorter consumed prefix
                                if (s.cl[i].boundaries != s.cl[i - 1].boundaries)
                                        e.violation("C09", "twin-boundaries", "C09/twin-boundaries",
                                                    strfmt("two fragmentations of the same stream produced different chunk boundaries (%zu vs %zu hits)",
                                                           s.cl[i].boundaries.size(), s.cl[i - 1].boundaries.size()));
                                else
                                        r.cov.hit("probe_rolling_twin_boundaries_equal");
                        }
                e.check_mem_all("end of run");
        }

        // ---- huge helpers
        // A message of more than 2^32 bytes taken from the aliased read-only window, output into the aliased writable window:
        // (a) one-shot call, (b) init + pieces below 2^32 bytes + finalize, (c) init + one update of the whole length + finalize.
        // Tags and the final content of the output period must agree.
        void gcm_huge(St &s, SClient &c, int ci)
        {
                Env &e = *s.env;
                build_hwin();
                build_howin();
                const Plan &p = *s.p;
                int bits = c.ks ? 256 : 128;
                const uint64_t n = (1ull << 32) + (1u << 20) + (uint64_t) p.get("c0_hugelen") % (6u << 20);
                const uint8_t *in = g_hwin + (size_t) (p.get("c0_phase") % 4096);
                uint8_t *out = g_howin + (size_t) ((p.get("c0_phase") >> 4) % 251);
                Rng g(mix64(p.seed, 0x6c30000ULL + (uint64_t) ci), "iv");
                c.iv = e.mem.alloc(12, 1, END_FLUSH, nullptr, "gcm iv", R_INPUT);
                g.fill(c.iv, 12);
                e.mem.snapshot(c.iv);
                c.aad = e.mem.alloc(c.aad_len, 1, END_FLUSH, nullptr, "gcm aad", R_INPUT);
                g.fill(c.aad, c.aad_len);
                e.mem.snapshot(c.aad);
                const char *fam = gcm_fams[c.fam];
                const char *dir = c.dec ? "dec" : "enc";
                std::string site = strfmt("gcm%d/%s/%s", bits, fam, dir);
                s.r->cov.hit(strfmt("probe_gcm_message_gt_2^32_%s_%s", fam, dir));
                struct Pass {
                        std::vector<uint8_t> tag;
                        uint64_t outh;
                };
                auto scrub = [&]() {
                        Rng sc(mix64(p.seed, 0x5c2b), "scrub");
                        sc.fill(g_hopat, HPER);
                };
                auto finish = [&](uint8_t *tag) {
                        Pass ps;
                        ps.tag.assign(tag, tag + c.tag_len);
                        ps.outh = hash_bytes(g_hopat, HPER);
                        return ps;
                };
                auto init_call = [&]() {
                        gcm_secrets(s, c);
                        if (c.api) {
                                SlotGuard sg;
                                sg.set(S.d_init[c.ks], S.ginit[c.ks][c.fam]);
                                e.call(strfmt("isal_aes_gcm_init_%d", bits).c_str(), S.isal_init[c.ks], { U(c.key_data), U(c.ctx), U(c.iv), U(c.aad), c.aad_len });
                        } else
                                e.call(strfmt("_aes_gcm_init_%d_%s", bits, fam).c_str(), S.ginit[c.ks][c.fam], { U(c.key_data), U(c.ctx), U(c.iv), U(c.aad), c.aad_len });
                };
                auto update_call = [&](uint64_t pos, uint64_t len) {
                        gcm_secrets(s, c);
                        e.ev(mix64(OP_DELIVER, len));
                        if (c.api) {
                                SlotGuard sg;
                                sg.set(c.dec ? S.d_dec_upd[c.ks] : S.d_enc_upd[c.ks], c.dec ? S.dec_upd[c.ks][c.fam] : S.enc_upd[c.ks][c.fam]);
                                std::string nm = strfmt("isal_aes_gcm_%s_%d_update", dir, bits);
                                uint64_t rc = e.call(nm.c_str(), c.dec ? S.isal_dec_upd[c.ks] : S.isal_enc_upd[c.ks], { U(c.key_data), U(c.ctx), U(out + pos), U(in + pos), len });
                                if ((uint32_t) rc)
                                        e.violation("C07", "update-failed", "C07/update-failed/" + nm, strfmt("%s returned %d for a %llu-byte piece", nm.c_str(), (int) rc, (unsigned long long) len));
                        } else
                                e.call(strfmt("_aes_gcm_%s_%d_update_%s", dir, bits, fam).c_str(), c.dec ? S.dec_upd[c.ks][c.fam] : S.enc_upd[c.ks][c.fam],
                                       { U(c.key_data), U(c.ctx), U(out + pos), U(in + pos), len });
                };
                auto fin_call = [&](uint8_t *tag) {
                        gcm_secrets(s, c);
                        if (c.api) {
                                SlotGuard sg;
                                sg.set(c.dec ? S.d_dec_fin[c.ks] : S.d_enc_fin[c.ks], c.dec ? S.dec_fin[c.ks][c.fam] : S.enc_fin[c.ks][c.fam]);
                                e.call(strfmt("isal_aes_gcm_%s_%d_finalize", dir, bits).c_str(), c.dec ? S.isal_dec_fin[c.ks] : S.isal_enc_fin[c.ks],
                                       { U(c.key_data), U(c.ctx), U(tag), (uint64_t) c.tag_len });
                        } else
                                e.call(strfmt("_aes_gcm_%s_%d_finalize_%s", dir, bits, fam).c_str(), c.dec ? S.dec_fin[c.ks][c.fam] : S.enc_fin[c.ks][c.fam],
                                       { U(c.key_data), U(c.ctx), U(tag), (uint64_t) c.tag_len });
                };
                uint8_t *tag = e.mem.alloc(c.tag_len, 1, END_FLUSH, &e.hidden, "gcm tag out", R_OUTPUT);
                // (a) one-shot
                scrub();
                gcm_secrets(s, c);
                e.call(strfmt("_aes_gcm_%s_%d_%s", dir, bits, fam).c_str(), c.dec ? S.dec[c.ks][c.fam] : S.enc[c.ks][c.fam],
                       { U(c.key_data), U(c.ctx), U(out), U(in), n, U(c.iv), U(c.aad), c.aad_len, U(tag), (uint64_t) c.tag_len });
                Pass a = finish(tag);
                // (b) pieces below 2^32 bytes, the first one >= 2^31
                scrub();
                init_call();
                {
                        uint64_t pos = 0;
                        uint64_t pieces[4] = { (1ull << 31) + (uint64_t) (p.get("c0_hugelen") % 4099), (1ull << 30) - 1 - (uint64_t) (p.get("c0_phase") % 77),
                                               1 + (uint64_t) (p.get("c0_phase") % 4095), 0 };
                        for (int k = 0; k < 4 && pos < n; k++) {
                                uint64_t len = pieces[k] ? std::min<uint64_t>(pieces[k], n - pos) : n - pos;
                                update_call(pos, len);
                                pos += len;
                        }
                }
                fin_call(tag);
                Pass b = finish(tag);
                // (c) the whole message in one update call
                scrub();
                init_call();
                update_call(0, n);
                fin_call(tag);
                Pass cc = finish(tag);
                // (d) a pending partial block of q bytes, then one piece of 2^32 + y bytes (y small: the piece's length modulo 2^32 is
                // smaller than what the pending block still needs), then the rest
                scrub();
                init_call();
                uint64_t q = 1 + (uint64_t) (p.get("c0_phase") % 15), y = (uint64_t) (p.get("c0_hugelen") % 16);
                if ((p.get("c0_hugelen") >> 4) & 1)
                        y = (uint64_t) (p.get("c0_hugelen") % (16 - q)); // strictly less than the room left in the pending block
                update_call(0, q);
                update_call(q, (1ull << 32) + y);
                if (q + (1ull << 32) + y < n)
                        update_call(q + (1ull << 32) + y, n - (q + (1ull << 32) + y));
                fin_call(tag);
                Pass dd = finish(tag);
                // (e) update calls that start a few blocks below each multiple of 2^16 blocks (the 16-bit carry of the block counter) for the
                // first 40 MiB, then the rest: call m starts at block 65536*m - j_m, j_m cycling through 0..28
                scrub();
                init_call();
                {
                        uint64_t pos = 0;
                        for (uint64_t m = 1; m <= 40 && pos < n; m++) {
                                uint64_t j = (m * 5 + (uint64_t) (p.get("c0_phase") % 29)) % 29;
                                uint64_t cut = 16 * (65536 * m - j) + ((m & 3) == 3 ? (uint64_t) (p.get("c0_hugelen") % 16) : 0);
                                if (cut <= pos || cut >= n)
                                        continue;
                                update_call(pos, cut - pos);
                                pos = cut;
                        }
                        if (pos < n)
                                update_call(pos, n - pos);
                }
                fin_call(tag);
                Pass ee = finish(tag);
                e.obs_bytes(0x6a0 + ci, b.tag.data(), b.tag.size());
                e.obs(0x6b0 + ci, b.outh);
                if (a.tag != b.tag || a.outh != b.outh)
                        e.violation("C07", "huge-oneshot", "C07/huge-oneshot/" + site,
                                    strfmt("%s: one-shot call over %llu bytes disagrees with the same message streamed in pieces below 2^32 bytes (tag %s vs %s, output %s)",
                                           site.c_str(), (unsigned long long) n, hex(a.tag.data(), a.tag.size()).c_str(), hex(b.tag.data(), b.tag.size()).c_str(),
                                           a.outh == b.outh ? "equal" : "differs"));
                if (cc.tag != b.tag || cc.outh != b.outh)
                        e.violation("C07", "huge-update", "C07/huge-update/" + site,
                                    strfmt("%s: a single update call over %llu bytes disagrees with the same message streamed in pieces below 2^32 bytes (tag %s vs %s, output %s)",
                                           site.c_str(), (unsigned long long) n, hex(cc.tag.data(), cc.tag.size()).c_str(), hex(b.tag.data(), b.tag.size()).c_str(),
                                           cc.outh == b.outh ? "equal" : "differs"));
                if (dd.tag != b.tag || dd.outh != b.outh)
                        e.violation("C07", "huge-update-after-partial", "C07/huge-update-after-partial/" + site,
                                    strfmt("%s: update(%llu) + update(2^32 + %llu) + rest disagrees with the same %llu-byte message streamed in pieces below 2^32 bytes (tag %s vs %s, output %s)",
                                           site.c_str(), (unsigned long long) q, (unsigned long long) y, (unsigned long long) n, hex(dd.tag.data(), dd.tag.size()).c_str(),
                                           hex(b.tag.data(), b.tag.size()).c_str(), dd.outh == b.outh ? "equal" : "differs"));
                if (ee.tag != b.tag || ee.outh != b.outh)
                        e.violation("C07", "huge-cuts-at-2^16-blocks", "C07/huge-cuts-at-2^16-blocks/" + site,
                                    strfmt("%s: the %llu-byte message cut a few blocks below each multiple of 2^16 blocks disagrees with the same message streamed in pieces below 2^32 bytes "
                                           "(tag %s vs %s, output %s)",
                                           site.c_str(), (unsigned long long) n, hex(ee.tag.data(), ee.tag.size()).c_str(), hex(b.tag.data(), b.tag.size()).c_str(),
                                           ee.outh == b.outh ? "equal" : "differs"));
                // an AAD of exactly 2^32 bytes (a zero low dword in its length): init + finalize, judged by the monitors only
                {
                        const uint64_t big_aad = 1ull << 32;
                        gcm_secrets(s, c);
                        s.r->cov.hit("probe_gcm_aad_of_2^32_bytes");
                        if (c.api) {
                                SlotGuard sg;
                                sg.set(S.d_init[c.ks], S.ginit[c.ks][c.fam]);
                                e.call(strfmt("isal_aes_gcm_init_%d", bits).c_str(), S.isal_init[c.ks], { U(c.key_data), U(c.ctx), U(c.iv), U(g_hwin + 64), big_aad });
                        } else
                                e.call(strfmt("_aes_gcm_init_%d_%s", bits, fam).c_str(), S.ginit[c.ks][c.fam], { U(c.key_data), U(c.ctx), U(c.iv), U(g_hwin + 64), big_aad });
                        fin_call(tag);
                }
                e.check_buf(tag, "gcm huge");
                e.check_buf(c.ctx, "gcm huge");
                e.check_buf(c.key_data, "gcm huge");
                s.r->cov.hit("stream_finalized_and_verified");
                c.finalized = true;
        }

        void pick_hitfree(St &s, SClient &c)
        {
                (void) s;
                build_hwin();
                // The stream is periodic, so in steady state the hash sequence is periodic too: scan one full
                // period incrementally and choose a 32-bit trigger value that never occurs.
                uint64_t h = 0;
                std::vector<uint8_t> win(c.w);
                for (uint32_t i = 0; i < c.w; i++) {
                        win[i] = g_hpat[(HPER - c.w + i) % HPER];
                        h = ((h << 1) | (h >> 63)) ^ golden(win[i]);
                }
                std::unordered_set<uint32_t> seen;
                size_t wp = 0;
                for (size_t i = 0; i < HPER; i++) {
                        uint8_t nb = g_hpat[i], ob = win[wp];
                        uint64_t t = golden(ob);
                        h = ((h << 1) | (h >> 63)) ^ golden(nb) ^ ((t << c.w) | (t >> (64 - c.w)));
                        win[wp] = nb;
                        wp = (wp + 1) % c.w;
                        seen.insert((uint32_t) h);
                }
                c.mask = 0xffffffffu;
                uint32_t t = 0x9e3779b9u;
                while (seen.count(t))
                        t += 0x01000193u;
                c.trigger = t;
        }
        static uint64_t golden(uint8_t b);

        void roll_setup_huge(St &s, SClient &c, int ci)
        {
                Env &e = *s.env;
                LegacyScope legacy_scope(e, c.api == 2);
                size_t phase = (size_t) s.p->get(strfmt("c%d_phase", ci).c_str());
                if (c.api)
                        e.call("isal_rolling_hash2_init", S.roll_isal_init, { U(c.ctx), c.w });
                else
                        e.call("_rolling_hash2_init", S.roll_init, { U(c.ctx), c.w });
                // initial window = the w stream bytes preceding the start phase: the run is in steady state
                uint8_t *init = e.mem.alloc(c.w, 1, END_FLUSH, nullptr, "rolling init bytes", R_INPUT);
                for (uint32_t i = 0; i < c.w; i++)
                        init[i] = g_hpat[(HPER + phase - c.w + i) % HPER];
                e.mem.snapshot(init);
                if (c.api)
                        e.call("isal_rolling_hash2_reset", S.roll_isal_reset, { U(c.ctx), U(init) });
                else
                        e.call("_rolling_hash2_reset", S.roll_reset, { U(c.ctx), U(init) });
                c.finalized = false;
                c.stream.clear();
                c.pos = phase;
        }

        void mh_huge(St &s, SClient &c, int ci, const Op &o)
        {
                // update calls of >= 2^31 bytes from the aliased window followed by finalize; the reference multi-hash is computed
                // blockwise over the periodic stream. Modes: 0 = one update of 2^31 + x bytes; 1 = a pending partial block of p bytes,
                // then one update of 2^32 - p + y bytes (len + pending wraps in 32 bits); 2 = one update of exactly k * 2^16 blocks
                // (64 MiB multiples: block counters whose low 16 bits are zero), optionally after a pending partial block.
                Env &e = *s.env;
                if (c.finalized)
                        return;
                build_hwin();
                int k = c.kind;
                int mode = (int) (s.p->get(strfmt("c%d_hugemode", ci).c_str()) % 3);
                size_t phase = (size_t) (o.d % 1024);
                uint64_t p0 = 0, n;
                if (mode == 1) {
                        p0 = 1 + (uint64_t) (o.c % 1023);
                        n = (1ull << 32) - p0 + (uint64_t) ((o.c >> 10) % p0);
                } else if (mode == 2) {
                        p0 = (o.c & 1) ? 1 + (uint64_t) ((o.c >> 1) % 1023) : 0;
                        n = (p0 ? 1024 - p0 : 0) + (uint64_t) (1 + (o.c >> 11) % 3) * (1ull << 26) + (uint64_t) ((o.c >> 13) % 2) * (uint64_t) ((o.c >> 14) % 1024);
                } else
                        n = (1ull << 31) + (uint64_t) (o.c % 2048);
                s.r->cov.hit(strfmt("probe_mh_huge_update_mode_%d", mode));
                if (n >= (1ull << 31))
                        s.r->cov.hit("probe_mh_update_len_ge_2^31");
                const char *prop = c.kind == K_MUR ? "C10" : "C05";
                std::string site = std::string(kind_name[k]) + "/" + mh_fams[c.fam];
                auto upd = [&](uint64_t off, uint64_t len) {
                        uint64_t rc;
                        if (c.api) {
                                SlotGuard sg;
                                sg.set(S.mh_disp_update[k], S.mh_update[k][c.fam]);
                                rc = e.call(strfmt("isal_%s_update", kind_name[k]).c_str(), S.mh_isal_update[k], { U(c.ctx), U(g_hwin + phase + off), len });
                        } else
                                rc = e.call(strfmt("_%s_update_%s", kind_name[k], mh_fams[c.fam]).c_str(), S.mh_update[k][c.fam], { U(c.ctx), U(g_hwin + phase + off), len });
                        if ((uint32_t) rc)
                                e.violation(prop, "update-failed", std::string(prop) + "/update-failed/" + site, strfmt("%s: update of %llu bytes returned %d", site.c_str(), (unsigned long long) len, (int) rc));
                        e.check_buf(c.ctx, "mh update (huge)");
                };
                e.ev(mix64(OP_DELIVER, ((uint64_t) ci << 40) ^ n ^ (p0 << 48)));
                if (p0)
                        upd(0, p0);
                upd(p0, n);
                uint64_t total = p0 + n;
                c.stream.clear();
                // finalize and compare against a streaming multi-hash reference
                bool sha256 = c.kind == K_MH256;
                size_t dl = sha256 ? 32 : 20;
                uint8_t *dig = e.mem.alloc(dl, 4, END_FLUSH, &e.hidden, "mh digest out", R_OUTPUT);
                uint8_t *mur = c.kind == K_MUR ? e.mem.alloc(16, 4, START_FLUSH, &e.hidden, "murmur digest out", R_OUTPUT) : nullptr;
                if (c.api) {
                        SlotGuard sg;
                        sg.set(S.mh_disp_finalize[k], S.mh_finalize[k][c.fam]);
                        if (mur)
                                e.call("isal_mh_sha1_murmur3_x64_128_finalize", S.mh_isal_finalize[k], { U(c.ctx), U(dig), U(mur) });
                        else
                                e.call(strfmt("isal_%s_finalize", kind_name[k]).c_str(), S.mh_isal_finalize[k], { U(c.ctx), U(dig) });
                } else if (mur)
                        e.call(strfmt("_mh_sha1_murmur3_x64_128_finalize_%s", mh_fams[c.fam]).c_str(), S.mh_finalize[k][c.fam], { U(c.ctx), U(dig), U(mur) });
                else
                        e.call(strfmt("_%s_finalize_%s", kind_name[k], mh_fams[c.fam]).c_str(), S.mh_finalize[k][c.fam], { U(c.ctx), U(dig) });
                // C05/C10 speak about streams shorter than 2^32 bytes: beyond that only memory safety is judged (by the monitors)
                std::vector<uint8_t> want = total < (1ull << 32) ? ref_mh_periodic(sha256, phase, total) : std::vector<uint8_t>(dig, dig + dl);
                if (total >= (1ull << 32))
                        s.r->cov.hit("probe_mh_total_ge_2^32_memory_safety_only");
                e.obs_bytes(0x420 + ci, dig, dl);
                if (memcmp(dig, want.data(), dl) != 0)
                        e.violation(prop, "mh-digest-huge", std::string(prop) + "/mh-digest-huge/" + site,
                                    strfmt("%s: digest after updates of %llu + %llu bytes differs from the definition", site.c_str(), (unsigned long long) p0,
                                           (unsigned long long) n));
                if (mur && total < (1ull << 32)) { // MurmurHash3 takes a 32-bit length: totals beyond are outside its definition
                        uint8_t wm[16];
                        ref_murmur3_x64_128(g_hwin + phase, (size_t) total, c.mur_seed, wm);
                        e.obs_bytes(0x430 + ci, mur, 16);
                        if (memcmp(mur, wm, 16) != 0)
                                e.violation("C10", "murmur-digest-huge", "C10/murmur-digest-huge/" + site,
                                            strfmt("%s: murmur3 %s, reference %s for %llu bytes seed %llx", site.c_str(), hex(mur, 16).c_str(), hex(wm, 16).c_str(),
                                                   (unsigned long long) total, (unsigned long long) c.mur_seed));
                        s.r->cov.hit("probe_murmur_total_in_[2^31,2^32)", total >= (1ull << 31) ? 1 : 0);
                }
                if (mur)
                        e.check_buf(mur, "mh finalize");
                e.check_buf(dig, "mh finalize");
                e.check_buf(c.ctx, "mh finalize");
                s.r->cov.hit("stream_finalized_and_verified");
                c.finalized = true;
        }

        static std::vector<uint8_t> ref_mh_periodic(bool sha256, size_t phase, uint64_t n);
};

uint64_t StreamSim::golden(uint8_t b) { return golden_rolling_table[b]; }

// streaming multi-hash reference over the periodic window (same definition as ref_mh, blockwise)
std::vector<uint8_t> StreamSim::ref_mh_periodic(bool sha256, size_t phase, uint64_t n)
{
        Algo a = sha256 ? A_SHA256 : A_SHA1;
        std::vector<RefHash> seg(16, RefHash(a));
        auto do_block = [&](const uint8_t *blk) {
                for (int g = 0; g < 16; g++) {
                        uint8_t b[64];
                        for (int wd = 0; wd < 16; wd++)
                                memcpy(b + 4 * wd, blk + (size_t) (wd * 16 + g) * 4, 4);
                        seg[g].compress(b);
                }
        };
        uint8_t blk[1024];
        uint64_t pos = 0;
        while (n - pos >= 1024) {
                size_t off = (size_t) ((phase + pos) % HPER);
                if (off + 1024 <= HPER)
                        do_block(g_hpat + off);
                else {
                        size_t first = HPER - off;
                        memcpy(blk, g_hpat + off, first);
                        memcpy(blk + first, g_hpat, 1024 - first);
                        do_block(blk);
                }
                pos += 1024;
        }
        size_t rem = (size_t) (n - pos);
        uint8_t tail[2048];
        memset(tail, 0, sizeof tail);
        for (size_t i = 0; i < rem; i++)
                tail[i] = g_hpat[(phase + pos + i) % HPER];
        tail[rem] = 0x80;
        size_t tot = (rem + 1 + 8 <= 1024) ? 1024 : 2048;
        uint64_t bits = n * 8;
        for (int i = 0; i < 8; i++)
                tail[tot - 1 - i] = (uint8_t) (bits >> (8 * i));
        do_block(tail);
        if (tot == 2048)
                do_block(tail + 1024);
        int nw = sha256 ? 8 : 5;
        std::vector<uint8_t> m((size_t) nw * 16 * 4);
        for (int wd = 0; wd < nw; wd++)
                for (int g = 0; g < 16; g++) {
                        uint32_t v = seg[g].h32[wd];
                        memcpy(&m[(size_t) (wd * 16 + g) * 4], &v, 4);
                }
        RefHash fin(a);
        fin.update(m.data(), m.size());
        return ctx_digest_image(a, fin.digest_bytes());
}

} // namespace

Sim *make_stream_sim() { return new StreamSim(); }
// the aliased windows are shared with the one-shot client (CBC calls of 2^32 bytes and more)
const uint8_t *huge_in_window()
{
        build_hwin();
        return g_hwin;
}
uint8_t *huge_out_window()
{
        build_howin();
        return g_howin;
}
uint8_t *huge_out_pattern()
{
        build_howin();
        return g_hopat;
}
size_t huge_period() { return HPER; }
namespace {
struct StreamHugeSim : StreamSim {
        const char *name() const override { return "streamhuge"; }
        Plan generate(uint64_t seed, const std::string &, bool thorough, uint64_t idx) override { return StreamSim::generate(seed, "HUGE", thorough, idx); }
};
} // namespace
Sim *make_streamhuge_sim() { return new StreamHugeSim(); }
namespace {
struct GcmHugeSim : StreamSim {
        const char *name() const override { return "gcmhuge"; }
        Plan generate(uint64_t seed, const std::string &, bool thorough, uint64_t idx) override { return StreamSim::generate(seed, "HUGEGCM", thorough, idx); }
};
} // namespace
Sim *make_gcmhuge_sim() { return new GcmHugeSim(); }
namespace {
// gcmjump: the stream position of a GCM context is advanced by J blocks without feeding J blocks (the same idea as the running-total jump of
// the hash managers). After init (and an optional short piece) the context - plain data - is copied, both copies get in_length += 16 J and the
// 32-bit block counter += J, and the rest of the stream is fed to the two copies through two different families. The state is reachable: the
// counter and the length are those after J more blocks, and for any GHASH value there is a J-th block that produces it. Whatever the correct
// continuation is, it is unique, so outputs and tags of the two families must agree.
struct GcmJumpSim : StreamSim {
        const char *name() const override { return "gcmjump"; }
        int ctr_lo = -1, ctr_dir = 0; // where the low byte of the block counter lives in current_counter[], and where the next byte is
        void locate_counter()
        {
                if (ctr_lo >= 0)
                        return;
                static uint8_t key[16], sched[16 * 15], iv[12], buf[257 * 16];
                alignas(16) static struct isal_gcm_key_data kd;
                static struct isal_gcm_context_data c0, c1, c2;
                ((void (*)(const void *, void *, void *)) S.keyexp[0][0])(key, &kd, sched);
                ((void (*)(void *)) S.precomp[0][0])(&kd);
                ((void (*)(const void *, void *, const void *, const void *, uint64_t)) S.ginit[0][0])(&kd, &c0, iv, nullptr, 0);
                c1 = c0;
                ((void (*)(const void *, void *, void *, const void *, uint64_t)) S.enc_upd[0][0])(&kd, &c1, buf, buf, 16);
                c2 = c0;
                ((void (*)(const void *, void *, void *, const void *, uint64_t)) S.enc_upd[0][0])(&kd, &c2, buf, buf, 257 * 16);
                int lo = -1, hi = -1;
                for (int i = 0; i < 16; i++) {
                        if ((uint8_t) (c1.current_counter[i] - c0.current_counter[i]) == 1 && lo < 0)
                                lo = i;
                }
                for (int i = 0; i < 16; i++)
                        if (i != lo && (uint8_t) (c2.current_counter[i] - c0.current_counter[i]) == 1)
                                hi = i;
                if (lo < 0 || hi < 0 || (hi - lo != 1 && hi - lo != -1) || c2.in_length != 257 * 16) {
                        fprintf(stderr, "HARNESS: cannot locate the GCM block counter in the context (lo=%d hi=%d)\n", lo, hi);
                        exit(2);
                }
                ctr_lo = lo;
                ctr_dir = hi - lo;
        }
        void jump(uint8_t *ctx, uint64_t J)
        {
                struct isal_gcm_context_data *c = (struct isal_gcm_context_data *) ctx;
                uint32_t v = 0;
                for (int k = 0; k < 4; k++)
                        v |= (uint32_t) c->current_counter[ctr_lo + k * ctr_dir] << (8 * k);
                v += (uint32_t) J;
                for (int k = 0; k < 4; k++)
                        c->current_counter[ctr_lo + k * ctr_dir] = (uint8_t) (v >> (8 * k));
                c->in_length += 16 * J;
        }
        Plan generate(uint64_t seed, const std::string &, bool, uint64_t idx) override
        {
                Rng g(seed, "plan");
                Plan p;
                p.cfg["ks"] = (int64_t) g.below(2);
                p.cfg["famA"] = (int64_t) (idx % 4);
                p.cfg["famB"] = (int64_t) ((idx % 4 + 1 + (idx / 4) % 3) % 4);
                p.cfg["dec"] = (int64_t) g.below(2);
                p.cfg["aadlen"] = (int64_t) g.below(33);
                p.cfg["pre"] = (int64_t) (16 * g.below(4));
                // positions: just below 2^31 blocks (the top bit sets inside the next call), at and above 2^31, high in the range, anywhere
                uint64_t J;
                switch (g.below(5)) {
                case 0: J = (1ull << 31) - 1 - g.below(600); break;
                case 1: J = (1ull << 31) + g.below(1 << 12); break;
                case 2: J = (1ull << 31) + g.below(1u << 30); break;
                case 3: J = (1ull << 32) - (1u << 16) - g.below(1u << 20); break;
                default: J = g.below(1ull << 32) % ((1ull << 32) - (1u << 16)); break;
                }
                p.cfg["J"] = (int64_t) J;
                int n = 1 + (int) g.below(3);
                for (int i = 0; i < n; i++) {
                        Op o;
                        o.kind = OP_DELIVER;
                        switch (g.below(4)) {
                        case 0: o.c = (int64_t) (128 + g.below(8192)); break;
                        case 1: o.c = (int64_t) (16 * (8 + g.below(600))); break;
                        case 2: o.c = (int64_t) g.below(300); break;
                        default: o.c = (int64_t) (4096 + g.below(4096)); break;
                        }
                        o.d = (int64_t) g.below(1 << 16);
                        p.ops.push_back(o);
                }
                return p;
        }
        std::string render(const Plan &p) const override
        {
                std::string s = strfmt("gcm%d %s: %s vs %s, jump of %lld blocks after %lld bytes, pieces=[", p.get("ks") ? 256 : 128, p.get("dec") ? "dec" : "enc", gcm_fams[p.get("famA") % 4],
                                       gcm_fams[p.get("famB") % 4], (long long) p.get("J"), (long long) p.get("pre"));
                for (size_t i = 0; i < p.ops.size(); i++)
                        s += strfmt("%s%lld", i ? " " : "", (long long) p.ops[i].c);
                return s + "]";
        }
        void execute(const Plan &p, Env &e, RunResult &r) override
        {
                locate_counter();
                int ks = (int) (p.get("ks") & 1), bits = ks ? 256 : 128, dec = (int) (p.get("dec") & 1);
                int fam[2] = { (int) (p.get("famA") % 4), (int) (p.get("famB") % 4) };
                if (fam[0] == fam[1])
                        fam[1] = (fam[0] + 1) % 4;
                size_t aad_len = (size_t) p.get("aadlen");
                uint64_t J = (uint64_t) p.get("J");
                Rng g(mix64(p.seed, 0x6a756d70), "gcmjump");
                uint8_t *key = e.mem.alloc(ks ? 32 : 16, 1, END_FLUSH, nullptr, "raw key", R_INPUT);
                g.fill(key, ks ? 32 : 16);
                uint8_t *iv = e.mem.alloc(12, 1, END_FLUSH, nullptr, "gcm iv", R_INPUT);
                g.fill(iv, 12);
                uint8_t *aad = e.mem.alloc(aad_len, 1, END_FLUSH, nullptr, "gcm aad", R_INPUT);
                g.fill(aad, aad_len);
                uint8_t *kd[2], *ctx[2];
                for (int s = 0; s < 2; s++) {
                        kd[s] = e.mem.alloc(sizeof(struct isal_gcm_key_data), 16, START_FLUSH, &e.hidden, "gcm key data", R_OBJECT);
                        uint8_t *tmpd = e.mem.alloc(16 * 15, 16, END_FLUSH, &e.hidden, "dec schedule out", R_OUTPUT);
                        e.call(strfmt("_aes_keyexp_%d_sse", bits).c_str(), S.keyexp[ks][0], { U(key), U(kd[s]), U(tmpd) });
                        e.call(strfmt("_aes_gcm_precomp_%d_%s", bits, gcm_fams[fam[s]]).c_str(), S.precomp[ks][fam[s]], { U(kd[s]) });
                        e.mem.snapshot(kd[s]);
                        ctx[s] = e.mem.alloc(sizeof(struct isal_gcm_context_data), 8, (Place) (s + 1), &e.hidden, "gcm context", R_OBJECT, 8 * (size_t) (1 + s));
                }
                const char *dir = dec ? "dec" : "enc";
                auto upd = [&](int s, uint8_t *out, const uint8_t *in, size_t n) {
                        e.call(strfmt("_aes_gcm_%s_%d_update_%s", dir, bits, gcm_fams[fam[s]]).c_str(), dec ? S.dec_upd[ks][fam[s]] : S.enc_upd[ks][fam[s]],
                               { U(kd[s]), U(ctx[s]), U(out), U(in), n });
                };
                e.call(strfmt("_aes_gcm_init_%d_%s", bits, gcm_fams[fam[0]]).c_str(), S.ginit[ks][fam[0]], { U(kd[0]), U(ctx[0]), U(iv), U(aad), aad_len });
                size_t pre = (size_t) p.get("pre");
                if (pre) {
                        uint8_t *in = e.mem.alloc(pre, 1, END_FLUSH, nullptr, "gcm input", R_INPUT);
                        g.fill(in, pre);
                        uint8_t *out = e.mem.alloc(pre, 1, END_FLUSH, &e.hidden, "gcm output", R_OUTPUT);
                        upd(0, out, in, pre);
                        e.obs_bytes(0x7a0, out, pre);
                }
                memcpy(ctx[1], ctx[0], sizeof(struct isal_gcm_context_data));
                jump(ctx[0], J);
                jump(ctx[1], J);
                e.ev(mix64(0x6a75, J));
                uint64_t start_ctr = 2 + pre / 16 + J;
                r.cov.hit(start_ctr >= (1ull << 31) ? "fault_gcm_stream_position_jumped_to_counter_ge_2^31" : "fault_gcm_stream_position_jumped_below_2^31");
                r.cov.hit(strfmt("probe_gcm_jump_%s_vs_%s", gcm_fams[fam[0]], gcm_fams[fam[1]]));
                r.cov.state(mix64(0x6a00 + fam[0] * 4 + fam[1], mix64((uint64_t) (63 - __builtin_clzll(start_ctr | 1)), (uint64_t) ks * 2 + dec)));
                std::string site = strfmt("gcm%d/%s/%s-vs-%s", bits, dir, gcm_fams[fam[0]], gcm_fams[fam[1]]);
                uint64_t blocks = 0, bytes = 0;
                for (size_t oi = 0; oi < p.ops.size(); oi++) {
                        e.op_index = (int) oi;
                        size_t n = (size_t) p.ops[oi].c;
                        if (start_ctr + blocks + n / 16 + 2 >= (1ull << 32) - 2)
                                break; // stay inside the 2^32 - 2 blocks a GCM message may have
                        Mem::Mark mk = e.mem.mark();
                        uint8_t *in = e.mem.alloc(n, 1, (Place) (p.ops[oi].d % 3), nullptr, "gcm input", R_INPUT, (size_t) ((p.ops[oi].d >> 2) % 64));
                        g.fill(in, n);
                        e.mem.snapshot(in);
                        uint8_t *out[2];
                        for (int s = 0; s < 2; s++) {
                                out[s] = e.mem.alloc(n, 1, (Place) ((p.ops[oi].d >> (8 + s)) % 3), &e.hidden, "gcm output", R_OUTPUT, (size_t) ((p.ops[oi].d >> (10 + 3 * s)) % 64));
                                upd(s, out[s], in, n);
                        }
                        e.obs_bytes(0x7a1, out[0], n);
                        if (memcmp(out[0], out[1], n) != 0) {
                                size_t k = 0;
                                while (out[0][k] == out[1][k])
                                        k++;
                                e.violation("C07", "jump-divergence", "C07/jump-divergence/" + site,
                                            strfmt("from the same context (block counter %llu at the start of the call, %llu bytes already processed) a %zu-byte update gives different "
                                                   "output through the two families, first at byte %zu",
                                                   (unsigned long long) (start_ctr + blocks), (unsigned long long) (16 * (start_ctr + blocks - 2)), n, k));
                        }
                        e.check_mem_all("gcm jump piece");
                        e.mem.release(mk);
                        bytes += n;
                        blocks = (bytes + 15) / 16;
                }
                e.op_index = (int) p.ops.size();
                uint8_t *tag[2];
                for (int s = 0; s < 2; s++) {
                        tag[s] = e.mem.alloc(16, 1, END_FLUSH, &e.hidden, "gcm tag out", R_OUTPUT);
                        e.call(strfmt("_aes_gcm_%s_%d_finalize_%s", dir, bits, gcm_fams[fam[s]]).c_str(), dec ? S.dec_fin[ks][fam[s]] : S.enc_fin[ks][fam[s]],
                               { U(kd[s]), U(ctx[s]), U(tag[s]), 16 });
                }
                e.obs_bytes(0x7a2, tag[0], 16);
                if (memcmp(tag[0], tag[1], 16) != 0)
                        e.violation("C07", "jump-divergence", "C07/jump-divergence/tag/" + site, "from the same jumped context the two families finish with different tags");
                e.check_mem_all("end of run");
        }
};
} // namespace
Sim *make_gcmjump_sim() { return new GcmJumpSim(); }
